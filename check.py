#!/venv/bin/python
"""
Entry point of the molgri deterministic-simulation checks.

    check.py <PROPERTY> --tier quick|thorough      seeded search (VERIF_SEED, VERIF_TIER, VERIF_REPO honoured)
    check.py <PROPERTY> --replay <file>            re-execute one recorded scenario
    check.py selftest [--tier quick|thorough]      determinism self-test of the simulator itself

exit 0 = property held on everything explored; 1 = VIOLATION line printed; 2 = HARNESS-ERROR (never mapped to 0).
"""
import os
import sys

VERIF_DIR = os.path.dirname(os.path.abspath(__file__))


def _reexec():
    """One controlled interpreter configuration: fixed hash seed, single-threaded BLAS, the tree under test first on
    the import path (the venv has an editable install of /repo; VERIF_REPO must win over it)."""
    repo = os.environ.get("VERIF_REPO", "/repo")
    want = {
        "PYTHONHASHSEED": os.environ.get("VERIF_HASHSEED", "0"),
        "OMP_NUM_THREADS": "1", "OPENBLAS_NUM_THREADS": "1", "MKL_NUM_THREADS": "1", "NUMEXPR_NUM_THREADS": "1",
        "MPLBACKEND": "Agg", "PYTHONWARNINGS": "ignore", "PYTHONDONTWRITEBYTECODE": "1",
        "VERIF_REPO": repo,
    }
    if os.environ.get("MOLGRI_VERIF_CHILD") == "1" and all(os.environ.get(k) == v for k, v in want.items()):
        return
    env = dict(os.environ)
    env.update(want)
    env["MOLGRI_VERIF_CHILD"] = "1"
    env["MOLGRI_VERIF"] = "1"
    pp = [repo, VERIF_DIR] + [p for p in env.get("PYTHONPATH", "").split(os.pathsep) if p and p not in (repo, VERIF_DIR)]
    env["PYTHONPATH"] = os.pathsep.join(pp)
    os.execve(sys.executable, [sys.executable, os.path.abspath(__file__)] + sys.argv[1:], env)


def main(argv):
    import argparse
    ap = argparse.ArgumentParser()
    ap.add_argument("prop")
    ap.add_argument("--tier", default=os.environ.get("VERIF_TIER", "quick"), choices=["quick", "thorough"])
    ap.add_argument("--replay")
    ap.add_argument("--no-evidence", action="store_true")
    ap.add_argument("--workers", type=int, default=None)
    ap.add_argument("--props", default=None, help="selftest: comma separated property ids")
    ap.add_argument("--child-prop")
    ap.add_argument("--child-seeds")
    args = ap.parse_args(argv)
    seed = int(os.environ.get("VERIF_SEED", "0") or 0)

    from sim import core
    from sim.registry import get_check, ALL_PROPS

    import molgri
    repo = os.path.realpath(os.environ["VERIF_REPO"])
    if not os.path.realpath(molgri.__file__).startswith(repo + os.sep):
        print(f"HARNESS-ERROR molgri imported from {molgri.__file__}, not from {repo}")
        return core.EXIT_HARNESS

    if args.prop == "selftest":
        from sim import selftest
        return selftest.main(args.tier, seed, args.props.split(",") if args.props else None)
    if args.prop == "selftest-child":
        import json
        from sim import selftest
        raw = args.child_seeds
        seeds = json.load(open(raw[1:])) if raw.startswith("@") else json.loads(raw)
        return selftest.child_main(args.child_prop, args.tier, seeds)
    if args.prop not in ALL_PROPS:
        print(f"HARNESS-ERROR unknown property {args.prop}; claimed: {sorted(ALL_PROPS)}")
        return core.EXIT_HARNESS
    check = get_check(args.prop)
    if args.replay:
        return core.run_replay(check, args.replay)
    workers = args.workers or core.N_WORKERS
    return core.run_check(check, args.tier, seed, workers, evidence=not args.no_evidence)


if __name__ == "__main__":
    _reexec()
    sys.path.insert(0, VERIF_DIR)
    import faulthandler
    faulthandler.enable()
    rc = main(sys.argv[1:])
    sys.stdout.flush()
    sys.exit(rc)
