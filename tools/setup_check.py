#!/venv/bin/python
"""MANIFEST.setup_cmd: nothing is installed or compiled; verify offline that the framework imports against the
working tree of the repository and that the interpreter has what the engines need."""
import os
import subprocess
import sys

VERIF = os.path.dirname(os.path.dirname(os.path.abspath(__file__)))
repo = os.environ.get("VERIF_REPO", "/repo")
env = dict(os.environ, PYTHONPATH=os.pathsep.join([repo, VERIF]), PYTHONWARNINGS="ignore", MPLBACKEND="Agg")
code = ("import numpy, scipy, networkx, MDAnalysis, pandas, molgri, sim.core, sim.registry;"
        "import os; assert os.path.realpath(molgri.__file__).startswith(os.path.realpath(%r)), molgri.__file__;"
        "from sim.registry import ALL_PROPS, get_check; [get_check(p).preload() for p in sorted(ALL_PROPS)];"
        "print('setup ok', sorted(ALL_PROPS))" % repo)
sys.exit(subprocess.run([sys.executable, "-c", code], env=env, cwd=VERIF).returncode)
