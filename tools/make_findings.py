#!/venv/bin/python
"""Writes the directed scenarios of the known findings (/verif/findings/<prop>-<name>.json).  They are replay files
executed first in every run of the property's check, so that the KNOWN-FINDING line is printed on every run while the
defect exists, independent of what the seeded search happens to reach."""
import json
import os

VERIF = os.path.dirname(os.path.dirname(os.path.abspath(__file__)))
OUT = os.path.join(VERIF, "findings")
os.makedirs(OUT, exist_ok=True)
ORDER = ["full_grid", "volumes", "borders_array", "distances_array", "adjacency_array"]


def pipeline(spec, solver, energy_sigma=2, T=300.0):
    ops = [{"op": "stage", "stage": "W", "mode": "warm", "order": ORDER},
           {"op": "stage", "stage": "E", "mode": "warm"}, {"op": "stage", "stage": "S", "mode": "warm"},
           {"op": "stage", "stage": "D", "mode": "warm"}]
    return {"kind": "pipeline", "spec": spec, "T": T, "D": 1.0,
            "energy": {"fmt": "xvg", "legends": ["LJ (SR)", "Potential"], "column": "Potential", "n_hash": 13,
                       "n_at": 10, "sigma": energy_sigma, "offset": 0.0, "seed": 12345, "numfmt": "gmx",
                       "zero_time": True},
            "solver": solver, "stale": None, "rng_init": 1, "dense_cap": 700, "cold_reference": False, "ops": ops}


def main():
    solver = {"tol": 1e-8, "maxiter": 100000, "which": "LM", "sigma": 0.1, "k": 3, "seeds": [1]}
    for grid in ["ico_4", "cube3D_4", "randomS_4", "randomS_5", "randomS_6", "randomS_7"]:
        alg, n = grid.split("_")
        spec = {"b": "1", "o": grid, "t": "[0.1, 0.2]", "factor": 2, "cartesian": True, "n_b": 1, "n_o": int(n),
                "n_t": 2, "canon_o": grid}
        rec = {"property": "C14", "finding": "F12", "key": f"cartesian-open-cells:{grid}",
               "scenario": pipeline(spec, solver)}
        with open(os.path.join(OUT, f"C14-F12-{grid}.json"), "w") as f:
            json.dump(rec, f, indent=1)
    spec = {"b": "1", "o": "ico_13", "t": "(0.2, 0.4)", "factor": 2, "cartesian": False, "n_b": 1, "n_o": 13,
            "n_t": 2, "canon_o": "ico_13"}
    solver = {"tol": 1e-5, "maxiter": 100000, "which": "LR", "sigma": None, "k": 12, "seeds": [3330157493]}
    rec = {"property": "C14", "finding": "F13", "key": "arpack-no-shift-skips-zero-eigenvalue",
           "scenario": pipeline(spec, solver, T=400.0)}
    with open(os.path.join(OUT, "C14-F13-noshift-LR.json"), "w") as f:
        json.dump(rec, f, indent=1)
    print("wrote", sorted(os.listdir(OUT)))


if __name__ == "__main__":
    main()
