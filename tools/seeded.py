#!/venv/bin/python
"""
Bookkeeping for the independently produced breaking changes under /verif/seeded/<id>/ (patch.diff, demo.py, meta.json).

    seeded.py add --id C13-a1 --prop C13 --patch <diff> --demo <demo.py> --needs "..." --tests tests/test_rate_merger.py
        confirm in a scratch worktree (outside /repo and /verif): demo passes without the patch, fails with it, the
        named existing tests still pass with it; run the property's check (quick, then thorough if quick misses)
        against the patched worktree via VERIF_REPO; store everything; remove the worktree.
    seeded.py recheck [--ids a,b] [--tier quick]     re-run the checks against every stored patch (after strengthening)
    seeded.py fulltests --id <id>                    run the complete baseline suite with the patch (slow)
    seeded.py table                                  print the markdown table for DESIGN.md
"""
import argparse
import json
import os
import shutil
import subprocess
import sys
import time

VERIF = os.path.dirname(os.path.dirname(os.path.abspath(__file__)))
REPO = "/repo"
SEEDED = os.path.join(VERIF, "seeded")
PY = "/venv/bin/python"
BASELINE_ALWAYS_FAIL = {"tests/test_pt.py::test_getting_each_molecule", "tests/test_pt.py::test_order_of_operations",
                        "tests/test_pt.py::test_pt_len", "tests/test_pt.py::test_pt_rotations_body",
                        "tests/test_transitions.py::test_quaternion_grid_assignments"}


def sh(cmd, **kw):
    return subprocess.run(cmd, capture_output=True, text=True, **kw)


def make_wt(tag):
    wt = f"/tmp/seedchk-{tag}"
    if os.path.exists(wt):
        sh(["git", "-C", REPO, "worktree", "remove", "--force", wt])
        shutil.rmtree(wt, ignore_errors=True)
    r = sh(["git", "-C", REPO, "worktree", "add", "-q", "--detach", wt, "HEAD"])
    if r.returncode:
        raise SystemExit(r.stderr)
    return wt


def drop_wt(wt):
    sh(["git", "-C", REPO, "worktree", "remove", "--force", wt])
    shutil.rmtree(wt, ignore_errors=True)
    shutil.rmtree(wt + "-replays", ignore_errors=True)


def run_check(prop, wt, tier, seed=0):
    env = dict(os.environ, VERIF_REPO=wt, VERIF_REPLAY_DIR=wt + "-replays", VERIF_SEED=str(seed))
    env.pop("MOLGRI_VERIF_CHILD", None)
    t0 = time.monotonic()
    p = sh([PY, os.path.join(VERIF, "check.py"), prop, "--tier", tier, "--no-evidence"], env=env)
    lines = [l for l in p.stdout.splitlines() if l.startswith(("VIOLATION", "HARNESS-ERROR"))]
    oracle = lines[0].split("oracle=")[1].split()[0] if lines and "oracle=" in lines[0] else ""
    return {"tier": tier, "seed": seed, "exit": p.returncode, "oracle": oracle, "wall_s": round(time.monotonic() - t0, 1),
            "first_line": lines[0][:400] if lines else p.stdout.strip().splitlines()[-1][:200] if p.stdout.strip() else ""}


def run_demo(wt, demo):
    env = dict(os.environ, PYTHONPATH=wt, PYTHONWARNINGS="ignore", MPLBACKEND="Agg")
    # the demonstrations were written to live in <worktree>/_seed/ (some locate input files relative to themselves)
    os.makedirs(os.path.join(wt, "_seed"), exist_ok=True)
    local = os.path.join(wt, "_seed", os.path.basename(demo))
    for fn in os.listdir(os.path.dirname(demo)):
        if fn.endswith(".py"):  # a demonstration may import a helper shipped next to it
            shutil.copy(os.path.join(os.path.dirname(demo), fn), os.path.join(wt, "_seed", fn))
    p = sh([PY, local], env=env, cwd=wt)
    tail = (p.stdout + p.stderr).strip().splitlines()[-1:] or [""]
    return p.returncode, tail[0][:300]


def run_tests(wt, tests):
    env = dict(os.environ, PYTHONPATH=wt)
    t0 = time.monotonic()
    p = sh([PY, "-m", "pytest", "-ra", "-q", "-p", "no:cacheprovider", "--timeout=900", *tests], env=env, cwd=wt)
    last = [l for l in p.stdout.strip().splitlines() if " passed" in l or " failed" in l or "error" in l.lower()][-1:]
    failed = sorted(l.split()[1] for l in p.stdout.splitlines() if l.startswith(("FAILED", "ERROR")))
    new_fail = [f for f in failed if f not in BASELINE_ALWAYS_FAIL]
    return {"tests": tests, "exit": 0 if (not new_fail and p.returncode in (0, 1)) else (p.returncode or 1),
            "summary": last[0] if last else p.stdout[-200:], "failed_outside_baseline_always_fail": new_fail,
            "note": "exit 0 = every test that passes on the unchanged tree still passes (the 5 baseline always-fail "
                    "tests are ignored)", "wall_s": round(time.monotonic() - t0, 1)}


def cmd_add(a):
    d = os.path.join(SEEDED, a.id)
    os.makedirs(d, exist_ok=True)
    shutil.copy(a.patch, os.path.join(d, "patch.diff"))
    demo_name = "demo.py"
    shutil.copy(a.demo, os.path.join(d, demo_name))
    wt = make_wt(a.id)
    meta = {"id": a.id, "property": a.prop, "breaks": a.breaks, "needs_to_manifest": a.needs, "origin": a.origin,
            "ran": {}}
    try:
        rc0, t0 = run_demo(wt, os.path.join(d, demo_name))
        meta["ran"]["demo_without_patch"] = {"exit": rc0, "tail": t0}
        r = sh(["git", "-C", wt, "apply", os.path.join(d, "patch.diff")])
        if r.returncode:
            raise SystemExit("patch does not apply: " + r.stderr)
        rc1, t1 = run_demo(wt, os.path.join(d, demo_name))
        meta["ran"]["demo_with_patch"] = {"exit": rc1, "tail": t1}
        if a.tests:
            meta["ran"]["existing_tests_with_patch"] = run_tests(wt, a.tests.split(","))
        res = run_check(a.prop, wt, "quick")
        meta["ran"]["check_quick"] = res
        if res["exit"] != 1 and not a.no_thorough:
            meta["ran"]["check_thorough"] = run_check(a.prop, wt, "thorough")
        meta["confirmed"] = bool(rc0 == 0 and rc1 != 0 and
                                 meta["ran"].get("existing_tests_with_patch", {"exit": 0})["exit"] == 0)
        caught = [k for k in ("check_quick", "check_thorough") if meta["ran"].get(k, {}).get("exit") == 1]
        meta["caught_by"] = caught
    finally:
        drop_wt(wt)
    with open(os.path.join(d, "meta.json"), "w") as f:
        json.dump(meta, f, indent=1)
    print(json.dumps(meta, indent=1))


def cmd_recheck(a):
    ids = a.ids.split(",") if a.ids else sorted(os.listdir(SEEDED))
    for sid in ids:
        d = os.path.join(SEEDED, sid)
        mp = os.path.join(d, "meta.json")
        if not os.path.exists(mp):
            continue
        meta = json.load(open(mp))
        wt = make_wt(sid)
        try:
            r = sh(["git", "-C", wt, "apply", os.path.join(d, "patch.diff")])
            if r.returncode:
                print(sid, "patch no longer applies:", r.stderr.strip()[:200])
                continue
            res = run_check(meta["property"], wt, a.tier, seed=a.seed)
            meta["ran"][f"check_{a.tier}" + ("" if a.seed == 0 else f"_seed{a.seed}")] = res
            meta["caught_by"] = sorted({k for k, v in meta["ran"].items() if k.startswith("check_") and v.get("exit") == 1})
            json.dump(meta, open(mp, "w"), indent=1)
            print(sid, meta["property"], a.tier, "exit", res["exit"], res["oracle"], f"{res['wall_s']}s", flush=True)
        finally:
            drop_wt(wt)


def cmd_fulltests(a):
    d = os.path.join(SEEDED, a.id)
    meta = json.load(open(os.path.join(d, "meta.json")))
    wt = make_wt(a.id + "-full")
    try:
        r = sh(["git", "-C", wt, "apply", os.path.join(d, "patch.diff")])
        if r.returncode:
            raise SystemExit(r.stderr)
        env = dict(os.environ, PYTHONPATH=wt)
        t0 = time.monotonic()
        p = sh([PY, "-m", "pytest", "-ra", "-q", "-p", "no:cacheprovider", "--timeout=900",
                "--continue-on-collection-errors"], env=env, cwd=wt)
        failed = sorted(l.split()[1] for l in p.stdout.splitlines() if l.startswith("FAILED"))
        baseline_fail = {"tests/test_pt.py::test_getting_each_molecule", "tests/test_pt.py::test_order_of_operations",
                         "tests/test_pt.py::test_pt_len", "tests/test_pt.py::test_pt_rotations_body",
                         "tests/test_transitions.py::test_quaternion_grid_assignments"}
        new_fail = [f for f in failed if f not in baseline_fail]
        summary = [l for l in p.stdout.strip().splitlines() if " passed" in l][-1:]
        meta["ran"]["full_suite_with_patch"] = {"summary": summary[0] if summary else "", "failed": failed,
                                                "failures_outside_baseline_always_fail": new_fail,
                                                "wall_s": round(time.monotonic() - t0, 1)}
        json.dump(meta, open(os.path.join(d, "meta.json"), "w"), indent=1)
        print(a.id, meta["ran"]["full_suite_with_patch"])
    finally:
        drop_wt(wt)


def cmd_table(a):
    print("| id | property | what it needs to manifest | demo exit (without / with patch) | first run of the check | now caught by |")
    print("|---|---|---|---|---|---|")
    for sid in sorted(os.listdir(SEEDED)):
        mp = os.path.join(SEEDED, sid, "meta.json")
        if not os.path.exists(mp):
            continue
        m = json.load(open(mp))
        r = m["ran"]
        caught = ", ".join(f"{k.replace('check_', '')} ({r[k]['oracle']})" for k in m.get("caught_by", [])) or \
            ("**missed** - " + m["judgement"] if m.get("judgement") else "**missed**")
        first = "caught"
        if "check_quick_before_strengthening" in r:
            first = "missed -> check strengthened" if m.get("caught_by") else "missed"
        print(f"| {sid} | {m['property']} | {m['needs_to_manifest']} | {r['demo_without_patch']['exit']} / "
              f"{r['demo_with_patch']['exit']} | {first} | {caught} |")


def main():
    ap = argparse.ArgumentParser()
    sub = ap.add_subparsers(dest="cmd", required=True)
    a = sub.add_parser("add")
    a.add_argument("--id", required=True)
    a.add_argument("--prop", required=True)
    a.add_argument("--patch", required=True)
    a.add_argument("--demo", required=True)
    a.add_argument("--breaks", default="")
    a.add_argument("--needs", default="")
    a.add_argument("--origin", default="independent sub-agent given only the property text and a scratch worktree")
    a.add_argument("--tests", default="")
    a.add_argument("--no-thorough", action="store_true")
    a.set_defaults(fn=cmd_add)
    r = sub.add_parser("recheck")
    r.add_argument("--ids", default=None)
    r.add_argument("--tier", default="quick")
    r.add_argument("--seed", type=int, default=0)
    r.set_defaults(fn=cmd_recheck)
    f = sub.add_parser("fulltests")
    f.add_argument("--id", required=True)
    f.set_defaults(fn=cmd_fulltests)
    t = sub.add_parser("table")
    t.set_defaults(fn=cmd_table)
    args = ap.parse_args()
    args.fn(args)


if __name__ == "__main__":
    main()
