#!/venv/bin/python
"""
Sensitivity of the checks (not a registered check): a catalogue of realistic source mutations, each applied to a
scratch git worktree of /repo outside /repo and /verif, the property's quick tier run against it with
VERIF_REPO=<worktree>, and the outcome tabulated (killed / survived, oracle, wall time).  The worktree is removed
after each mutant.  Mutations here are first-party sensitivity probes taken from DESIGN.md's "sensitivity targets";
the independently produced breaking changes live under /verif/seeded/.

    tools/mutants.py [--only C13,C14] [--ids m-c13-1,...] [--tier quick] [--out tools/mutants_result.json]
"""
import argparse
import json
import os
import shutil
import subprocess
import sys
import time

VERIF = os.path.dirname(os.path.dirname(os.path.abspath(__file__)))
REPO = "/repo"

RM = "molgri/molecules/rate_merger.py"
TR = "molgri/molecules/transitions.py"
PT = "molgri/molecules/pts.py"
IO = "molgri/io.py"
FG = "molgri/space/fullgrid.py"
VO = "molgri/space/voronoi.py"
RO = "molgri/space/rotobj.py"
PO = "molgri/space/polytopes.py"

# (id, property, file, old, new, description)
MUTANTS = [
    # ---- C13
    ("m-c13-unsorted-keep", "C13", RM, "to_keep = sorted(set(range(my_matrix.shape[1])) - set(flat_merged_indices))",
     "to_keep = list(set(range(my_matrix.shape[1])) - set(flat_merged_indices))", "F6 re-introduced in merge"),
    ("m-c13-unsorted-keep-del", "C13", RM, "to_keep = sorted(set(range(my_matrix.shape[1])) - set(reindexing_to_join))",
     "to_keep = list(set(range(my_matrix.shape[1])) - set(reindexing_to_join))", "F6 re-introduced in delete"),
    ("m-c13-collective-last", "C13", RM, "collective_index = [to_join[0] for to_join in reindexing_to_join]",
     "collective_index = [to_join[-1] for to_join in reindexing_to_join]", "merged cell placed at the largest index"),
    ("m-c13-no-group-sort", "C13", RM, "        internal_index_list[ci].sort()\n", "", "merged group not sorted"),
    ("m-c13-no-reclose", "C13", RM,
     "        reindexing_to_join = merge_sublists([[int(i) for i in sub] for sub in reindexing_to_join if len(sub) > 0])\n",
     "        reindexing_to_join = [[int(i) for i in sub] for sub in reindexing_to_join if len(sub) > 0]\n",
     "F8 re-introduced (no closure after re-indexing)"),
    ("m-c13-no-normalize", "C13", RM, "    result = sqra_normalize(result)\n", "", "diagonal not re-set after deletion"),
    ("m-c13-else-none", "C13", TR, "                index_list=current_index_list)\n        return transition_matrix, current_index_list",
     "                index_list=current_index_list)\n        else:\n            current_index_list = None\n        return transition_matrix, current_index_list",
     "F3 re-introduced"),
    ("m-c13-first-hit", "C13", RM, "    return np.where([my_el in sublist for sublist in my_list])[0]",
     "    return np.where([my_el == sublist[0] for sublist in my_list])[0]",
     "cell looked up only as first member of a group"),
    # ---- C14
    ("m-c14-f1", "C14", VO, "                if len(opp_ind) > 0:", "                if opp_ind:", "F1 re-introduced"),
    ("m-c14-vj", "C14", TR, "transition_matrix.data /= self.volumes[transition_matrix.row]",
     "transition_matrix.data /= self.volumes[transition_matrix.col]", "V_j for V_i"),
    ("m-c14-factor2", "C14", TR, "* 1000 / (2 * kB * N_A * T)", "* 1000 / (kB * N_A * T)", "lost factor 2 in exponent"),
    ("m-c14-sign", "C14", TR, "diff_energies = self.energies[transition_matrix.row] - self.energies[transition_matrix.col]",
     "diff_energies = self.energies[transition_matrix.col] - self.energies[transition_matrix.row]", "exponent sign"),
    ("m-c14-border-factor", "C14", FG, "            my_factor = self.factor**2\n", "            my_factor = self.factor\n",
     "f instead of f^2 on borders (uniform: detailed balance insensitive - expected survivor)"),
    ("m-c14-volume-order", "C14", FG,
     "        for o_rot in pos_volumes:\n            for b_rot in ori_volumes:\n                all_volumes.append(o_rot*(self.factor**3)*b_rot)",
     "        for b_rot in ori_volumes:\n            for o_rot in pos_volumes:\n                all_volumes.append(o_rot*(self.factor**3)*b_rot)",
     "volumes enumerated rotation-major (expected survivor: Q is built from the same saved volumes, so detailed "
     "balance w.r.t. the saved V_i holds whatever their order - the order clause is C02's)"),
    ("m-c14-no-transpose", "C14", TR, "eigs(self.matrix_to_decompose.T, k=k", "eigs(self.matrix_to_decompose, k=k",
     "right instead of left eigenvectors"),
    ("m-c14-no-sort", "C14", TR, "        idx = eigenval.argsort()[::-1]\n", "        idx = eigenval.argsort()\n",
     "eigenvalues ascending"),
    ("m-c14-dist-pos-only", "C14", FG, "            increments.append(increments[-1])\n            increments = np.array(increments)\n            my_diags",
     "            increments.append(increments[0])\n            increments = np.array(increments)\n            my_diags",
     "radial distance diagonal padded with the first increment (equivalent: the padded element is never used)"),
    # ---- C20
    ("m-c20-skiprows12", "C20", IO, "skiprows=13, header=None", "skiprows=12, header=None", "skiprows 12"),
    ("m-c20-skiprows14", "C20", IO, "skiprows=13, header=None", "skiprows=14, header=None", "skiprows 14"),
    ("m-c20-range9", "C20", IO, "for i in range(0, 10):", "for i in range(0, 9):", "legend s9 ignored"),
    ("m-c20-comment-hash", "C20", IO, "comment='@', skiprows=13", "comment='#', skiprows=13", "comment char #"),
    ("m-c20-no-indexcol", "C20", IO, 'pd.read_csv(self.path_energy, index_col=0, float_precision="round_trip")',
     'pd.read_csv(self.path_energy, float_precision="round_trip")', "csv index column kept as data"),
    ("m-c20-no-roundtrip", "C20", IO, 'names=column_names,\n                                float_precision="round_trip")',
     "names=column_names)", "F11 re-introduced (xvg)"),
    ("m-c20-borders-T", "C20", IO, "sparse.save_npz(path_borders_array, self.fg.get_full_borders())",
     "sparse.save_npz(path_borders_array, self.fg.get_full_borders().tocsc())", "borders saved as csc"),
    ("m-c20-vol-f32", "C20", IO, "np.save(path_volumes, self.fg.get_total_volumes())",
     "np.save(path_volumes, np.asarray(self.fg.get_total_volumes(), dtype=np.float32))", "volumes as float32"),
    ("m-c20-wrong-file", "C20", IO, "    def load_distances_array(self, path_distances_array: str) -> sparse.coo_array:\n        return sparse.load_npz(path_distances_array)",
     "    def load_distances_array(self, path_distances_array: str) -> sparse.coo_array:\n        return sparse.load_npz(path_distances_array.replace('distances', 'borders'))",
     "reader loads the borders file for distances"),
    # ---- C10
    ("m-c10-no-copy", "C10", PT, "self.moving_molecule = molecule2.copy()", "self.moving_molecule = molecule2", "shared source"),
    ("m-c10-no-reset", "C10", PT, "            self.moving_molecule.atoms.positions = starting_positions\n", "",
     "no per-frame reset"),
    ("m-c10-transposed", "C10", PT, "rotate(rotation_body.as_matrix(), point", "rotate(rotation_body.as_matrix().T, point",
     "inverse rotation"),
    ("m-c10-scalar-first", "C10", PT, "Rotation.from_quat(orientation)", "Rotation.from_quat(np.roll(orientation, 1))",
     "quaternion read scalar-first"),
    ("m-c10-translate-first", "C10", PT,
     "            self.moving_molecule.atoms.rotate(rotation_body.as_matrix(), point=self.moving_molecule.atoms.center_of_mass())\n            self.moving_molecule.atoms.translate(position)",
     "            self.moving_molecule.atoms.translate(position)\n            self.moving_molecule.atoms.rotate(rotation_body.as_matrix(), point=(0, 0, 0))",
     "translate, then rotate about the origin"),
    ("m-c10-first-atom", "C10", PT, "point=self.moving_molecule.atoms.center_of_mass())",
     "point=self.moving_molecule.atoms.positions[0])", "rotate about the first atom"),
    ("m-c10-no-advance", "C10", PT, "            self.current_frame += 1\n", "", "frame index not advanced"),
    ("m-c10-merge-order", "C10", PT, "Merge(self.static_molecule.atoms, self.moving_molecule.atoms)",
     "Merge(self.moving_molecule.atoms, self.static_molecule.atoms)", "molecule 2 first"),
    ("m-c10-cog", "C10", PT, "point=self.moving_molecule.atoms.center_of_mass())",
     "point=self.moving_molecule.atoms.center_of_geometry())", "rotate about the centre of geometry"),
    # ---- C11
    ("m-c11-index", "C11", TR, "np.array(t_assignments * len(self.o_array) + o_assignments, dtype=float)",
     "np.array(o_assignments * len(self.t_array) + t_assignments, dtype=float)", "index composed o*n_t+t"),
    ("m-c11-argmax", "C11", TR, "result = np.argmin(alignment_magnitudes, axis=0).flatten()",
     "result = np.argmax(alignment_magnitudes, axis=0).flatten()", "farthest rotation"),
    ("m-c11-outer", "C11", TR, "outer_bound = self.t_array[-1] + 0.5 * (self.t_array[-1] - self.t_array[-2])",
     "outer_bound = self.t_array[-1]", "outer bound without the half increment"),
    ("m-c11-scalar-first", "C11", TR, "Rotation(self.b_array).as_matrix()", "Rotation(np.roll(self.b_array, 1, axis=1)).as_matrix()",
     "grid quaternions read scalar-first"),
    ("m-c11-inv-pa", "C11", TR, "inverse_pa = np.linalg.inv(reference_principal_axes)",
     "inverse_pa = reference_principal_axes", "inverse_pa transposed (inverse of an orthogonal matrix dropped)"),
    ("m-c11-round6", "C11", TR, "cosalpha = np.round(pa.dot(atom_pos - com), 3)", "cosalpha = np.round(pa.dot(atom_pos - com), 6)",
     "F14 re-introduced"),
    ("m-c11-outer-first-incr", "C11", TR, "0.5 * (self.t_array[-1] - self.t_array[-2])", "0.5 * (self.t_array[1] - self.t_array[0])",
     "outer bound from the first increment"),
    ("m-c11-cursor", "C11", TR, "        ag.universe.trajectory[frame_index]\n", "        ag.universe.trajectory[int(frame_index) - int(frame_index) % 2]\n",
     "every odd frame analysed at its even predecessor"),
    ("m-c11-imap-unordered", "C11", TR, "direction_frames = worker_pool.map(run_per_frame, frame_values)",
     "direction_frames = list(worker_pool.imap_unordered(run_per_frame, frame_values, chunksize=16))",
     "results taken in completion order: invisible with the real Pool(1) (one worker completes in order), visible "
     "only under the simulated pool schedule"),
    ("m-c11-imap", "C11", TR, "direction_frames = worker_pool.map(run_per_frame, frame_values)",
     "direction_frames = list(worker_pool.imap(run_per_frame, frame_values, chunksize=16))",
     "ordered imap: a legitimate refactoring (expected survivor - must NOT raise an alarm)"),
    # ---- C08
    ("m-c08-no-seed-q", "C08", RO, "        np.random.seed(0)\n        all_quaternions = random_quaternions(self.N)",
     "        all_quaternions = random_quaternions(self.N)", "randomQ not seeded"),
    ("m-c08-no-seed-s", "C08", RO, "        np.random.seed(0)\n        return random_sphere_points(self.N)",
     "        return random_sphere_points(self.N)", "randomS not seeded"),
    ("m-c08-no-seed-dense", "C08", VO, "        np.random.seed(1)\n", "",
     "helper points of the volume estimate not seeded (expected survivor: every grid construction reseeds the global "
     "generator with 0 or 15 immediately before, so the state at this point is fixed by the construction itself)"),
    ("m-c08-no-seed15", "C08", PO, "        np.random.seed(15)\n", "", "index shuffle unseeded"),
    ("m-c08-seed15-level0", "C08", PO, "        np.random.seed(15)\n", "        if self.current_level == 0:\n            np.random.seed(15)\n",
     "index shuffle seeded only at level 0 (expected survivor: all levels of one grid are built inside one call, the "
     "generator state at level k is fixed by the level-0 seed)"),
    ("m-c08-nonidempotent", "C08", VO, "np.array([ap for ap in self.additional_points if q_in_upper_sphere(ap)])",
     "np.array([ap for ap in self.additional_points[1:] if q_in_upper_sphere(ap)])", "helper points shrink at every call"),
    ("m-c08-module-cache", "C08", RO, "        while len(self.polytope.get_nodes()) < self.N:\n            self.polytope.divide_edges()\n        ordered_points = self.polytope.get_nodes(N=self.N, projection=True)\n        return ordered_points",
     "        while len(self.polytope.get_nodes()) < self.N:\n            self.polytope.divide_edges()\n        ordered_points = self.polytope.get_nodes(N=self.N, projection=True)\n        np.random.shuffle(ordered_points[self.N // 2:]) if np.random.random() < 0.0 else None\n        return ordered_points",
     "draws one number from the global generator after building (order unchanged: expected survivor)"),
    # ---- C18
    ("m-c18-stale-cache", "C18", PO, "        elif self.current_nodes[1] == N_nodes:", "        elif self.current_nodes[0] is not None:",
     "sorted-node cache never invalidated"),
    ("m-c18-ci-offset", "C18", PO, "        self.current_max_ci += len(new_nodes)\n", "", "index offset not advanced"),
    ("m-c18-no-face-diag", "C18", PO,
     "        self._add_edges_of_len(self.side_len * 2 * np.sqrt(2), wished_levels=[self.current_level - 1,\n                                                                              self.current_level - 1],\n                               only_seconds=True)",
     "        pass", "cube3D: face diagonals not re-added after a division"),
    ("m-c18-rounded-mid", "C18", PO, "            new_point = np.average(np.array(old_points), axis=0)",
     "            new_point = np.round(np.average(np.array(old_points), axis=0), 6)", "midpoints rounded to 6 decimals"),
    ("m-c18-half-tol", "C18", "molgri/space/utils.py", "        if np.allclose(q[:i], 0) and q[i] > 0:\n            return True\n    return False",
     "        if np.allclose(q[:i], 0, atol=0.2) and q[i] > 0:\n            return True\n    return False",
     "hemisphere test with a coarse tolerance"),
    ("m-c18-no-seed15", "C18", PO, "        np.random.seed(15)\n", "", "index shuffle unseeded (indices still permanent: C18 expected survivor, C08 kills)"),
]


TIER_OVERRIDE = {"m-c18-half-tol": "thorough"}


def run(cmd, **kw):
    return subprocess.run(cmd, capture_output=True, text=True, **kw)


def main():
    ap = argparse.ArgumentParser()
    ap.add_argument("--only", default=None)
    ap.add_argument("--ids", default=None)
    ap.add_argument("--tier", default="quick")
    ap.add_argument("--out", default=os.path.join(VERIF, "tools", "mutants_result.json"))
    ap.add_argument("--scratch", default="/tmp/molgri-mutants")
    args = ap.parse_args()
    only = set(args.only.split(",")) if args.only else None
    ids = set(args.ids.split(",")) if args.ids else None
    results = []
    if os.path.exists(args.out):
        try:
            results = json.load(open(args.out))
        except Exception:
            results = []
    done = {r["id"]: r for r in results}
    for mid, prop, path, old, new, desc in MUTANTS:
        if only and prop not in only:
            continue
        if ids and mid not in ids:
            continue
        wt = f"{args.scratch}-{mid}"
        if os.path.exists(wt):
            run(["git", "-C", REPO, "worktree", "remove", "--force", wt])
            shutil.rmtree(wt, ignore_errors=True)
        r = run(["git", "-C", REPO, "worktree", "add", "-q", "--detach", wt, "HEAD"])
        if r.returncode != 0:
            print("worktree failed", r.stderr)
            return 2
        try:
            fp = os.path.join(wt, path)
            src = open(fp).read()
            if src.count(old) != 1:
                rec = {"id": mid, "property": prop, "status": "not-applicable", "detail": f"pattern found {src.count(old)} times",
                       "description": desc}
            else:
                open(fp, "w").write(src.replace(old, new))
                t0 = time.monotonic()
                env = dict(os.environ, VERIF_REPO=wt, VERIF_REPLAY_DIR=wt + "-replays")
                env.pop("MOLGRI_VERIF_CHILD", None)
                tier = TIER_OVERRIDE.get(mid, args.tier)
                p = run([sys.executable, os.path.join(VERIF, "check.py"), prop, "--tier", tier, "--no-evidence"], env=env)
                wall = time.monotonic() - t0
                lines = [l for l in p.stdout.splitlines() if l.startswith(("VIOLATION", "HARNESS-ERROR"))]
                status = {0: "survived", 1: "killed", 2: "harness-error"}.get(p.returncode, f"rc={p.returncode}")
                oracle = ""
                if lines and "oracle=" in lines[0]:
                    oracle = lines[0].split("oracle=")[1].split()[0]
                rec = {"id": mid, "property": prop, "tier": tier, "status": status, "oracle": oracle, "wall_s": round(wall, 1),
                       "first_line": (lines[0][:300] if lines else ""), "description": desc}
            done[mid] = rec
            print(json.dumps(rec), flush=True)
        finally:
            run(["git", "-C", REPO, "worktree", "remove", "--force", wt])
            shutil.rmtree(wt, ignore_errors=True)
            shutil.rmtree(wt + "-replays", ignore_errors=True)
        order = [m[0] for m in MUTANTS]
        with open(args.out, "w") as f:
            json.dump([done[i] for i in order if i in done], f, indent=1)
    return 0


if __name__ == "__main__":
    sys.exit(main())
