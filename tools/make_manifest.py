#!/venv/bin/python
"""Regenerates /verif/MANIFEST.json from the registry (so that the file never drifts from the code)."""
import json
import os
import sys

VERIF = os.path.dirname(os.path.dirname(os.path.abspath(__file__)))
sys.path.insert(0, VERIF)

PY = "/venv/bin/python"

CLAIMED = {
    "C08": {
        "engine": "session",
        "technique": "deterministic simulation: seeded warm-interpreter histories of constructions/getter calls with "
                     "global-RNG, clock and process-restart (PYTHONHASHSEED) faults, bitwise comparison with a "
                     "cold-interpreter first-call reference computed twice",
        "text": "Seeded exploration of call histories: every observation (grid arrays, sparse matrices incl. entry "
                "order, volumes) in every history must be bit-identical to the value a fresh interpreter returns as the "
                "first call on a fresh object; the reference is computed in two cold interpreters with different hash "
                "seeds, initial RNG states and order, which must agree (cross-process clause); prefix clause compared "
                "bitwise for the polytope algorithms; a sample of returned objects is kept and digested again at the end "
                "of the history (a getter must not change what an earlier getter call handed out). Sampling of histories, not proof - the history is the "
                "quantifier, which a fixed unit test cannot vary.",
        "note": "Trusted: numpy/scipy/Qhull determinism for identical input, sha256 digests, the getter list in "
                "sim/session.py. Only call-level interleavings (no pre-emption inside a library call). Bounds: quick "
                "3-D N<=60, 4-D N<=17; thorough 3-D N<=200, 4-D N<=60.",
        "design_ref": "DESIGN.md section 4, C08",
    },
    "C14": {
        "engine": "pipeline",
        "technique": "deterministic simulation: workflow stages (grid writer, fake energy peer, SqRA, decomposition) as "
                     "tasks over a simulator-owned scratch directory with crash/re-run, torn/lost writes, stale "
                     "directories, warm/cold processes, global-RNG faults and seeded ARPACK start vectors; invariants "
                     "on the files left behind",
        "text": "Seeded exploration of composed runs of writer -> files -> reader -> rate matrix -> solver under fault "
                "schedules. Judged on the files the run leaves: per-pair detailed balance w.r.t. V*exp(-E/RT) (rel. "
                "1e-9, pairs beyond the 500 kJ/mol cap not judged), Q pattern == saved adjacency, finite entries and "
                "positive volumes, eigenvalues real/sorted/matching a dense solver, largest zero, left eigenvector proportional to "
                "V*exp(-E/RT) for every simulated start vector; the stages run inside a project directory, a quarter "
                "of the runs interleave a second experiment of the same project. Sampling, not proof. Findings F12 and "
                "F13 are printed as KNOWN-FINDING. (Bit-identity of the files with an uninterrupted run is C08's/C20's "
                "claim and is only counted here.)",
        "note": "Trusted: numpy dense eigvals as the reference solver, the oracle code in sim/pipeline.py, the fake "
                "peers' file formats. Snakemake is a stub (stage drivers mirror the rule bodies). Eigen-oracle only "
                "where well conditioned (sigma<=3 kJ/mol, T>=250 K, 8<=n<=cap, k<=n-2; eigenvector clause needs a "
                "spectral gap). Disk faults at file granularity between operations.",
        "design_ref": "DESIGN.md section 4, C14",
    },
    "C20": {
        "engine": "pipeline",
        "technique": "deterministic simulation (weak form): seeded write/overwrite/crash/re-run histories of grid files "
                     "and fake-GROMACS energy tables on a scratch directory, read back by warm or cold-interpreter "
                     "readers, bitwise comparison with the writer's in-memory values and the written tokens",
        "text": "Mostly a seeded round trip, said plainly: the simulator adds process separation (reader in a fresh "
                "interpreter), overwrite and crash/re-run histories on re-used paths, and an in-process fake peer for "
                "gmx energy. Loaded arrays/sparse matrices must equal the writer's in-memory values bit for bit "
                "(format and index arrays included), and those in turn a FullGrid built directly from the same strings; "
                "one reader object may be asked again after its file was rewritten; energy frames must have one row per data line in order, columns "
                "Time + legends, values == float(token); csv round trips must be identical.",
        "note": "Trusted: numpy/scipy/pandas file formats, Python float() as the reference parser. No byte-level "
                "corruption is injected against the oracle (no checksum is promised). Legends distinct and without "
                "quotes.",
        "design_ref": "DESIGN.md section 4, C20",
    },
    "C18": {
        "engine": "session",
        "technique": "deterministic simulation: seeded subdivision histories of 1-2 interleaved polytopes with "
                     "global-RNG faults, invariants against an independently built ideal lattice and an append-only "
                     "index log after every operation",
        "text": "Seeded exploration of subdivision histories (divide / getters / oversized requests, two instances "
                "interleaved, RNG perturbed between any two operations); after every operation the node set must equal "
                "the independently constructed lattice, be closed under negation, keep every (index,node) pair ever "
                "observed, order levels, and give exact prefix / half selections. The history space is small and the "
                "seeded search covers most of it; evidence counts distinct histories.",
        "note": "Trusted: the ideal-lattice construction in sim/session.py (meshgrid boundary / barycentric face "
                "lattice), KD-tree matching at 1e-9. Bounds: quick ico/cube3D level 3, cube4D level 1; thorough level "
                "4 and cube4D level 2.",
        "design_ref": "DESIGN.md section 4, C18",
    },
    "C10": {
        "engine": "walker",
        "technique": "deterministic simulation: pseudotrajectory generators as cooperative tasks sharing source "
                     "universes, stepped in seeded order with cancel/restart, drain + random-order reads and "
                     "global-RNG faults; every frame compared with an independent rigid-body model",
        "text": "Seeded exploration of interleavings of 1-3 generator tasks built from the same source molecules "
                "(files written by the simulator or shipped with the repository, read through the package's reader). "
                "Each yielded or re-read frame must equal, atom by atom within 1e-4 A, the rigid placement prescribed "
                "by its grid row (rotation about the centre of mass by an independently coded quaternion formula, then "
                "translation), with molecule 1 untouched, frame count/index and atom order as stated. Sampling.",
        "note": "Trusted: the reference model in sim/walker.py, MDAnalysis readers and mass guessing. One generator per "
                "Pseudotrajectory object (documented contract). float32 coordinates -> tolerance 1e-4 A up to 100 A.",
        "design_ref": "DESIGN.md section 4, C10",
    },
    "C11": {
        "engine": "walker",
        "technique": "deterministic simulation: trajectories from a seeded rigid-body walker on SE(3), worker pool "
                     "replaced by SimPool (seeded worker count, chunking, chunk order, duplicated chunk delivery); "
                     "per-frame comparison with a geometric nearest-cell reference model",
        "text": "Seeded exploration of walker trajectories (random walk, i.i.d., excursions beyond the outer shell, "
                "whole-system shift) and pool schedules. Every frame outside a small boundary margin must be assigned "
                "(t*n_o+o)*n_b+b of the reference model (nearest radius with outer bound, nearest direction, smallest "
                "relative rotation angle), NaN beyond the bound; the library's own pseudotrajectory must be assigned "
                "back to 0,1,2,... Candidly the schedule dimension is shallow (frames are independent); its job is to "
                "show that independence. Sampling.",
        "note": "Trusted: the reference model in sim/walker.py. multiprocessing.Pool is a stub (same pickle-per-chunk "
                "contract). Second molecules with three distinct principal moments (gaps >= 8 %), planar included; "
                "frames within 1e-3 A / 2e-3 rad of a cell boundary excluded. Bounds n_b<=20, n_o<=26, <=600 frames.",
        "design_ref": "DESIGN.md section 4, C11",
    },
    "C13": {
        "engine": "merger",
        "technique": "deterministic simulation: seeded merge/delete/cut-and-merge histories with message faults on the "
                     "join lists, refinement against a set-partition reference model, ddmin-minimised replay files",
        "text": "Seeded exploration of operation histories (threaded index list, dense and sparse in lock-step, "
                "one-shot vs step-wise vs re-delivered join lists) checked after every operation against an executable "
                "set-partition + block-sum model. Sampling, not proof: a clean batch is evidence that no history of the "
                "generated shape breaks the bookkeeping; histories are the quantifier of the property, which is why "
                "this level fits.",
        "note": "Trusted: the reference model in sim/merger.py (union-find partition, P^T M P block sums), numpy. "
                "Not generated: cells that never existed, deleting all groups, empty join sublists. Absent cell as the "
                "only bridge between two sublists: both readings accepted.",
        "design_ref": "DESIGN.md section 4, C13",
    },
}

NOT_APPLICABLE = {
    "C01": "pure function: SQRA.get_rate_matrix is a stateless formula on its arguments; no schedule, clock, I/O or retained state for a simulator to own (its file-borne use is exercised inside C14, not claimed)",
    "C02": "pure function of the grid specification: symmetry/pattern/scaling are per-input identities; no history, fault or interleaving dimension (F1 sits here; its pipeline consequence is decided under C14)",
    "C03": "pure geometry per (algorithm, N): quantified over inputs only, nothing for a seeded scheduler to decide",
    "C04": "pure geometry per (algorithm, N): quantified over inputs only (F1 is a C04 violation by reading; see C14)",
    "C05": "closed-form arithmetic on the radial and direction grids: pure function of its input",
    "C06": "pure geometry per input grid in Cartesian mode (findings F2, F12 recorded in DESIGN.md; F12's pipeline consequence is a known finding under C14)",
    "C07": "point count / unit norm / uniqueness per (algorithm, N): pure function; the history dependence of the same grids is C08",
    "C09": "pure index arithmetic on arrays",
    "C12": "MSM.get_one_tau_transition_matrix is a pure function of (array, tau, mode), asked for exhaustively over short sequences: enumeration, not schedule search",
    "C15": "tolerance band on numerical volumes per (algorithm, N): pure function of the input once C08 holds",
    "C16": "text -> radii parsing and boundary formulas: pure string/array function",
    "C17": "grid-name normalisation over a token language, asked exhaustively: pure string function (finding F7 recorded in DESIGN.md)",
    "C19": "all-geometry-or-ValueError over a small exhaustively enumerated box of sizes: pure function of the specification (findings F4, F5 recorded in DESIGN.md)",
}

PENDING = {}


def main():
    from sim.registry import ALL_PROPS
    checks = []
    for pid in sorted(CLAIMED):
        if pid not in ALL_PROPS:
            continue
        c = CLAIMED[pid]
        checks.append({
            "property_id": pid,
            "quick_cmd": f"{PY} /verif/check.py {pid} --tier quick",
            "thorough_cmd": f"{PY} /verif/check.py {pid} --tier thorough",
            "evidence_file": f"/verif/evidence/{pid}.json",
            "replay_cmd_template": f"{PY} /verif/check.py {pid} --replay {{path}}",
            "engine": c["engine"],
            "level_claimed": {"category": "exploration", "text": c["text"], "design_ref": c["design_ref"]},
            "level_note": c["note"],
            "technique": c["technique"],
        })
    na = [{"property_id": k, "reason": v} for k, v in sorted(NOT_APPLICABLE.items())]
    for pid in sorted(CLAIMED):
        if pid not in ALL_PROPS:
            na.append({"property_id": pid, "reason": "check under construction in this commit; will be claimed "
                                                      "(deterministic simulation) once its engine is committed"})
    for pid, why in sorted(PENDING.items()):
        na.append({"property_id": pid, "reason": why})
    na.sort(key=lambda r: r["property_id"])
    engines = {}
    for ch in checks:
        engines.setdefault(ch["engine"], []).append(ch["property_id"])
    manifest = {
        "version": 1,
        "setup_cmd": f"{PY} /verif/tools/setup_check.py",
        "hooks": {
            "guard": "MOLGRI_VERIF",
            "enable": "no source hooks exist: every seam is a module-level name the simulator rebinds from outside "
                      "(transitions.Pool/eigs/time, numpy global RNG, scratch-directory files, fresh interpreters); "
                      "checks import the working tree via PYTHONPATH=$VERIF_REPO (default /repo)",
            "baseline_off_cmd": "cd /repo && /venv/bin/python -m pytest -ra -q -p no:cacheprovider --timeout=900 "
                                "--continue-on-collection-errors",
            "source_commits": [],
            "add_only": True,
        },
        "engines": [{"name": n, "path": f"/verif/sim/{n}.py", "serves_properties": sorted(p),
                     "kind_free_text": "seeded deterministic simulator engine (own PRNG, explicit op-list replay files)"}
                    for n, p in sorted(engines.items())],
        "checks": checks,
        "not_applicable": na,
        "notes": "Technique family: deterministic simulation with fault injection. VERIF_SEED selects the master seed; "
                 "exit 0 held / 1 VIOLATION / 2 HARNESS-ERROR. Genuine defects repaired by fix: commits are listed in "
                 "/verif/known_findings.txt; DESIGN.md section 6 describes them. Determinism self-test of the simulator "
                 "(not a property check): /venv/bin/python /verif/check.py selftest --tier quick. Sensitivity: "
                 "/verif/seeded/ (independent breaking changes) and /verif/tools/mutants.py.",
    }
    with open(os.path.join(VERIF, "MANIFEST.json"), "w") as f:
        json.dump(manifest, f, indent=1)
        f.write("\n")
    print("wrote MANIFEST.json with", [c["property_id"] for c in checks])


if __name__ == "__main__":
    main()
