#!/venv/bin/python
"""Cold stage: a fresh interpreter (own PYTHONHASHSEED, own module state) executing one job read from stdin.
Run as a script, never with -m (the module must not be loaded twice)."""
import json
import os
import sys

VERIF_DIR = os.path.dirname(os.path.dirname(os.path.abspath(__file__)))
if VERIF_DIR not in sys.path:
    sys.path.insert(0, VERIF_DIR)


def main():
    job = json.loads(sys.stdin.read())
    mode = job["mode"]
    if mode == "reference":
        from sim.session import child_reference
        res = child_reference(job)
    elif mode == "history":
        from sim.session import child_history
        res = child_history(job)
    elif mode == "stage":
        from sim.pipeline import child_stage
        res = child_stage(job)
    else:
        raise SystemExit(f"unknown mode {mode}")
    sys.stdout.write("@@RESULT@@" + json.dumps(res))
    sys.stdout.flush()


if __name__ == "__main__":
    main()
