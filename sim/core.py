"""
Simulator core: seeds, event log, seams, batch runner, minimisation, replay files, evidence.

One integer (VERIF_SEED) decides everything: master PRNG -> run seeds -> every generated operation, schedule and
fault of a run.  Executing a *scenario* (the explicit operation/fault list a run generated) needs no PRNG at all, so a
scenario file is an exact replay.  Logging never draws from a PRNG and never reads a real clock.
"""
from __future__ import annotations

import contextlib
import hashlib
import io
import json
import multiprocessing as mp
import os
import random
import shutil
import signal
import subprocess
import sys
import tempfile
import time as _real_time
import traceback
from collections import Counter
from concurrent.futures import ProcessPoolExecutor, as_completed
from concurrent.futures.process import BrokenProcessPool

import numpy as np

VERIF_DIR = os.path.dirname(os.path.dirname(os.path.abspath(__file__)))
REPO_DIR = os.environ.get("VERIF_REPO", "/repo")
EVIDENCE_DIR = os.path.join(VERIF_DIR, "evidence")
REPLAY_DIR = os.environ.get("VERIF_REPLAY_DIR") or os.path.join(VERIF_DIR, "replays")
FINDINGS_DIR = os.path.join(VERIF_DIR, "findings")
KNOWN_FINDINGS_FILE = os.path.join(VERIF_DIR, "known_findings.txt")
N_WORKERS = int(os.environ.get("VERIF_WORKERS", "16"))

EXIT_OK, EXIT_VIOLATION, EXIT_HARNESS = 0, 1, 2


# ---------------------------------------------------------------------------------------------------------------------
#   seeds and digests
# ---------------------------------------------------------------------------------------------------------------------

def derive_seed(*parts) -> int:
    text = "/".join(str(p) for p in parts)
    return int.from_bytes(hashlib.sha256(text.encode()).digest()[:8], "big")


def master_rng(seed: int, prop: str, tier: str) -> random.Random:
    return random.Random(derive_seed(seed, prop, tier))


def digest_bytes(*chunks: bytes) -> str:
    h = hashlib.sha256()
    for c in chunks:
        h.update(c)
    return h.hexdigest()[:16]


def digest_array(a) -> str:
    a = np.asarray(a)
    if a.dtype == object:
        return digest_bytes(repr(a.tolist()).encode())
    a = np.ascontiguousarray(a)
    return digest_bytes(str(a.dtype).encode(), str(a.shape).encode(), a.tobytes())


def digest_sparse(m) -> str:
    """Format, shape, data and index arrays: covers values, pattern *and* stored entry order."""
    fmt = m.format
    parts = [fmt.encode(), str(m.shape).encode(), str(m.dtype).encode()]
    if fmt == "coo":
        parts += [np.ascontiguousarray(m.row).astype(np.int64).tobytes(),
                  np.ascontiguousarray(m.col).astype(np.int64).tobytes()]
    elif fmt in ("csr", "csc", "bsr"):
        parts += [np.ascontiguousarray(m.indices).astype(np.int64).tobytes(),
                  np.ascontiguousarray(m.indptr).astype(np.int64).tobytes()]
    else:
        c = m.tocoo()
        parts += [c.row.astype(np.int64).tobytes(), c.col.astype(np.int64).tobytes()]
    parts.append(np.ascontiguousarray(m.data).tobytes())
    return digest_bytes(*parts)


def digest_any(x) -> str:
    import scipy.sparse as sp
    if sp.issparse(x):
        return "S" + digest_sparse(x)
    if isinstance(x, np.ndarray):
        return "A" + digest_array(x)
    if isinstance(x, (list, tuple)):
        # a list and an array with the same numbers are not the same value to the caller (2*v differs): keep the kind
        try:
            arr = np.asarray(x)
            if arr.dtype != object:
                return ("L" if isinstance(x, list) else "T") + digest_array(arr)
        except Exception:
            pass
        return "J" + digest_bytes(repr(x).encode())
    return "R" + digest_bytes(repr(x).encode())


# ---------------------------------------------------------------------------------------------------------------------
#   violations, event log, library-call guard
# ---------------------------------------------------------------------------------------------------------------------

class Violation(Exception):
    """The property does not hold on this run.  `oracle` identifies the violated clause (kept during minimisation);
    `key` is the canonical identity of the failing input/history used to match known findings."""

    def __init__(self, oracle: str, message: str, key: str | None = None):
        super().__init__(f"{oracle}: {message}")
        self.oracle = oracle
        self.message = message
        self.key = key


class HarnessError(Exception):
    pass


class RunTimeout(BaseException):
    """Raised by SIGALRM inside a worker; BaseException so that library `except Exception` cannot swallow it."""


class EventLog:
    """(seq, task, op, args, result-digest) -> one sha256 per run.  seq is the simulator's global event number and the
    only notion of time (molgri has no timers)."""

    def __init__(self, keep: int = 0):
        self._h = hashlib.sha256()
        self.n = 0
        self.keep = keep
        self.tail: list = []

    def add(self, task, op, args=None, result=None):
        rec = json.dumps([self.n, task, op, args, result], sort_keys=True, default=_json_default)
        self._h.update(rec.encode())
        self._h.update(b"\n")
        if self.keep:
            self.tail.append(rec)
            if len(self.tail) > self.keep:
                self.tail.pop(0)
        self.n += 1

    def digest(self) -> str:
        return self._h.hexdigest()[:16]


def _json_default(o):
    if isinstance(o, (np.integer,)):
        return int(o)
    if isinstance(o, (np.floating,)):
        return float(o)
    if isinstance(o, np.ndarray):
        return o.tolist()
    if isinstance(o, (set, frozenset)):
        return sorted(o)
    return repr(o)


_DEVNULL = None


@contextlib.contextmanager
def quiet():
    """The library prints a lot (debug statistics); keep worker stdout clean without touching the library."""
    global _DEVNULL
    if _DEVNULL is None:
        _DEVNULL = open(os.devnull, "w")
    with contextlib.redirect_stdout(_DEVNULL):
        yield


@contextlib.contextmanager
def lib_call(what: str, allowed: tuple = ()):
    """Run repository code for one generated operation.  Every generated operation lies inside the domain the
    property states, so an exception escaping the repository is a violation, not a harness error.  Exceptions listed
    in `allowed` are re-raised for the caller (they are part of the expected behaviour)."""
    try:
        with quiet():
            yield
    except Violation:
        raise
    except RunTimeout:
        raise
    except allowed:
        raise
    except Exception as e:  # noqa: BLE001 - we really want everything the library may raise
        tb = traceback.extract_tb(e.__traceback__)
        where = ""
        for fr in reversed(tb):
            if "/molgri/" in fr.filename or "/workflow/" in fr.filename:
                where = f" at {os.path.basename(fr.filename)}:{fr.lineno}"
                break
        raise Violation(f"exception:{type(e).__name__}", f"{what} raised {type(e).__name__}: {e}{where}") from e


# ---------------------------------------------------------------------------------------------------------------------
#   seams
# ---------------------------------------------------------------------------------------------------------------------

class RngSeam:
    """Owns numpy's process-global legacy generator, the state every molgri grid/Voronoi construction reseeds and
    draws from (surface S1)."""

    KINDS = ("rng_reseed", "rng_draw", "rng_foreign_state", "rng_library_seed")

    def __init__(self):
        self._saved = None

    def install(self):
        self._saved = np.random.get_state()

    def restore(self):
        if self._saved is not None:
            np.random.set_state(self._saved)

    @staticmethod
    def apply(fault: dict):
        kind = fault["kind"]
        if kind == "rng_reseed":
            np.random.seed(fault["seed"])
        elif kind == "rng_draw":
            np.random.random(fault["k"])
        elif kind == "rng_foreign_state":
            # a state as another library/test would leave it: MT19937 seeded elsewhere and advanced
            rs = np.random.RandomState(fault["seed"])
            rs.random(fault.get("advance", 7))
            np.random.set_state(rs.get_state())
        elif kind == "rng_library_seed":
            # one of molgri's own constants: code that silently relies on a neighbour's leftover seeding is caught
            np.random.seed(fault["seed"])
            if fault.get("advance"):
                np.random.random(fault["advance"])
        else:
            raise HarnessError(f"unknown rng fault {kind}")

    @staticmethod
    def generate(rng: random.Random) -> dict:
        kind = rng.choice(RngSeam.KINDS)
        if kind == "rng_reseed":
            return {"kind": kind, "seed": rng.randrange(2 ** 32)}
        if kind == "rng_draw":
            return {"kind": kind, "k": rng.choice([1, 2, 3, 5, 17, 624, 1000])}
        if kind == "rng_foreign_state":
            return {"kind": kind, "seed": rng.randrange(2 ** 32), "advance": rng.randrange(0, 50)}
        return {"kind": kind, "seed": rng.choice([15, 0, 1]), "advance": rng.choice([0, 0, 1, 3, 50])}


class SimClock:
    """Replaces the `time` name bound in molgri modules.  Logical: advances by one tick per reading; faults may jump
    it forwards or backwards.  No property depends on it; it is owned so that nothing reads the wall clock."""

    def __init__(self, start: float = 1.7e9):
        self.now = start
        self.reads = 0

    def __call__(self) -> float:
        self.reads += 1
        self.now += 1e-3
        return self.now

    def jump(self, delta: float):
        self.now += delta


class World:
    """Installs the seams for one run and restores them afterwards."""

    def __init__(self, clock: bool = True, rng_init: int = 0xC0FFEE):
        self.rng_init = rng_init
        self.rng = RngSeam()
        self.clock = SimClock() if clock else None
        self._patched = []
        self.scratch = None
        self.scratch_suffix = [" dir", "-\u00e9\u00f6", "", "", ""][rng_init % 5]

    def __enter__(self):
        self._cwd = os.getcwd()
        self.rng.install()
        # the simulator owns the initial state of the process-global generator (a forked worker would otherwise carry
        # whatever OS-entropy state numpy gave the parent at import)
        np.random.seed(self.rng_init % (2 ** 32))
        if self.clock is not None:
            import importlib
            for modname in ("molgri.molecules.transitions", "molgri.space.rotobj", "molgri.wrappers"):
                try:
                    mod = importlib.import_module(modname)
                except Exception:  # pragma: no cover
                    continue
                if hasattr(mod, "time"):
                    self._patched.append((mod, "time", getattr(mod, "time")))
                    setattr(mod, "time", self.clock)
        return self

    def patch(self, mod, name, value, required: bool = False):
        """Rebind a module-level seam.  A seam the tree under test no longer has (a refactoring may have moved an
        import) is skipped rather than treated as an error: the run then uses the real thing."""
        if not hasattr(mod, name):
            if required:
                raise HarnessError(f"seam {mod.__name__}.{name} does not exist")
            return False
        self._patched.append((mod, name, getattr(mod, name)))
        setattr(mod, name, value)
        return True

    def make_scratch(self) -> str:
        if self.scratch is None:
            base = os.environ.get("VERIF_SCRATCH") or None
            # awkward but legal directory names (space, non-ASCII) are part of what a stage may be handed
            self.scratch = tempfile.mkdtemp(prefix="molgri-sim-", suffix=self.scratch_suffix, dir=base)
        return self.scratch

    def __exit__(self, *exc):
        for mod, name, old in reversed(self._patched):
            setattr(mod, name, old)
        self._patched.clear()
        self.rng.restore()
        try:
            os.chdir(self._cwd)  # a run may have moved into its scratch directory
        except OSError:
            os.chdir(VERIF_DIR)
        if self.scratch is not None:
            shutil.rmtree(self.scratch, ignore_errors=True)
            self.scratch = None
        return False


# ---------------------------------------------------------------------------------------------------------------------
#   check base class
# ---------------------------------------------------------------------------------------------------------------------

class Check:
    """One property.  Subclasses provide generate/execute (+ optional shrink hooks)."""

    prop = "C00"
    engine = "none"
    rule = ""
    components = {}
    assumptions: list = []

    def budget(self, tier: str) -> dict:
        """runs, chunk (runs per worker task), wall (soft cap, s), run_timeout (s), min_wall for ddmin."""
        raise NotImplementedError

    def preload(self):
        """Import repository modules in the parent before forking workers."""

    def generate(self, rng: random.Random, tier: str) -> dict:
        raise NotImplementedError

    def execute(self, scenario: dict) -> dict:
        """Run the scenario.  Returns outcome dict: events, fingerprint, faults{}, probes{}, sig, nontrivial.
        Raises Violation."""
        raise NotImplementedError

    def op_list_key(self) -> str:
        return "ops"

    def shrink_candidates(self, scenario: dict):
        """Yield simpler variants (beyond dropping ops); engine specific."""
        return iter(())

    def directed_scenarios(self) -> list:
        out = []
        if os.path.isdir(FINDINGS_DIR):
            for fn in sorted(os.listdir(FINDINGS_DIR)):
                if fn.startswith(self.prop + "-") and fn.endswith(".json"):
                    with open(os.path.join(FINDINGS_DIR, fn)) as f:
                        out.append((fn, json.load(f)))
        return out


def _alarm_handler(signum, frame):
    raise RunTimeout()


def safe_execute(check: Check, scenario: dict, timeout: float) -> dict:
    """Execute one scenario with a wall cap; classify the result.  Never raises (except KeyboardInterrupt)."""
    out = {"violation": None, "harness_error": None}
    old = signal.signal(signal.SIGALRM, _alarm_handler)
    signal.setitimer(signal.ITIMER_REAL, timeout)
    try:
        res = check.execute(scenario)
        out.update(res)
    except Violation as v:
        out["violation"] = {"oracle": v.oracle, "message": v.message, "key": v.key}
        if getattr(v, "scenario", None) is not None:
            # the violation names its own, self-contained scenario (used for minimisation and as the replay file)
            out["violation_scenario"] = v.scenario
        partial = getattr(v, "partial", None)
        if partial:
            out.update(partial)
    except RunTimeout:
        out["harness_error"] = f"run exceeded {timeout}s wall cap"
    except Exception:  # noqa: BLE001
        out["harness_error"] = traceback.format_exc(limit=12)
    finally:
        signal.setitimer(signal.ITIMER_REAL, 0)
        signal.signal(signal.SIGALRM, old)
    return out


def run_isolated(fn, *args):
    """Run fn(*args) in a forked child of this worker and return its result.  Every run then starts from the module
    state the batch had when the pool was forked - state a run (or a mutated library: module-level caches, class
    attributes) leaves behind cannot leak into the next run on the same worker, so one seed stays one repeatable
    execution whatever ran before it.  A child that dies (segfault in a C extension) is reported for that run only."""
    import pickle
    r, w = os.pipe()
    pid = os.fork()
    if pid == 0:
        code = 0
        try:
            os.close(r)
            try:
                data = pickle.dumps(fn(*args))
            except BaseException:  # noqa: BLE001
                data = pickle.dumps({"__isolated_error__": traceback.format_exc(limit=10)})
            with os.fdopen(w, "wb") as f:
                f.write(data)
        except BaseException:  # noqa: BLE001
            code = 3
        finally:
            os._exit(code)
    os.close(w)
    with os.fdopen(r, "rb") as f:
        data = f.read()
    _, status = os.waitpid(pid, 0)
    if not data:
        return {"__isolated_error__": f"isolated run died without a result (wait status {status})"}
    return pickle.loads(data)


def _one_run(check, tier, s, timeout):
    rng = random.Random(s)
    try:
        scenario = check.generate(rng, tier)
    except Exception:  # noqa: BLE001
        return None, {"violation": None, "harness_error": "generate: " + traceback.format_exc(limit=8)}
    return scenario, safe_execute(check, scenario, timeout)


# worker-side globals (set before fork)
_CHECK: Check | None = None


def _worker_chunk(args):
    tier, seeds, want_fps = args
    check = _CHECK
    agg = {"runs": 0, "events": 0, "faults": Counter(), "probes": Counter(), "sigs": set(), "inter": set(),
           "violations": [], "harness_errors": [], "samples": [], "fps": [], "fp_h": hashlib.sha256()}
    bud = check.budget(tier)
    isolate = bud.get("isolate", True) and not os.environ.get("VERIF_NO_ISOLATE")
    for s in seeds:
        if isolate:
            res = run_isolated(_one_run, check, tier, s, bud.get("run_timeout", 120))
            if isinstance(res, dict) and "__isolated_error__" in res:
                agg["harness_errors"].append({"seed": s, "error": res["__isolated_error__"]})
                continue
            scenario, out = res
        else:
            scenario, out = _one_run(check, tier, s, bud.get("run_timeout", 120))
        if scenario is None:
            agg["harness_errors"].append({"seed": s, "error": out["harness_error"]})
            continue
        agg["runs"] += 1
        agg["events"] += out.get("events", 0)
        agg["faults"].update(out.get("faults", {}))
        agg["probes"].update(out.get("probes", {}))
        if out.get("nontrivial") and out.get("sig") is not None:
            agg["sigs"].add(derive_seed(out["sig"]))
        if out.get("inter") is not None:
            agg["inter"].add(derive_seed(out["inter"]))
        fp = out.get("fingerprint", "-")
        agg["fp_h"].update(f"{s}:{fp}\n".encode())
        if want_fps:
            agg["fps"].append((s, fp))
        if out["harness_error"]:
            agg["harness_errors"].append({"seed": s, "error": out["harness_error"], "scenario": scenario})
        if out["violation"]:
            agg["violations"].append({"seed": s, "violation": out["violation"],
                                      "scenario": out.get("violation_scenario") or scenario})
        elif len(agg["samples"]) < 1 and out.get("nontrivial"):
            agg["samples"].append({"seed": s, "scenario": compact(scenario)})
    agg["fp_h"] = agg["fp_h"].hexdigest()
    agg["faults"] = dict(agg["faults"])
    agg["probes"] = dict(agg["probes"])
    return agg


def compact(obj, max_list: int = 24, depth: int = 0):
    """Shorten a scenario for the evidence samples (the full one is only needed for replay files)."""
    if isinstance(obj, dict):
        return {k: compact(v, max_list, depth + 1) for k, v in obj.items()}
    if isinstance(obj, (list, tuple)):
        if len(obj) > max_list:
            return [compact(v, max_list, depth + 1) for v in obj[:max_list]] + [f"... ({len(obj) - max_list} more)"]
        return [compact(v, max_list, depth + 1) for v in obj]
    if isinstance(obj, float):
        return float(f"{obj:.6g}")
    return obj


# ---------------------------------------------------------------------------------------------------------------------
#   known findings
# ---------------------------------------------------------------------------------------------------------------------

def load_known_findings() -> dict:
    """{(property, key): text} for `finding:` lines.  `fixed:` lines suppress nothing and are ignored here."""
    res = {}
    if not os.path.exists(KNOWN_FINDINGS_FILE):
        return res
    with open(KNOWN_FINDINGS_FILE) as f:
        for line in f:
            line = line.strip()
            if not line.startswith("finding:"):
                continue
            body = line[len("finding:"):].strip()
            fields = body.split(None, 2)
            prop = key = None
            text = ""
            for fld in fields[:2]:
                if fld.startswith("property="):
                    prop = fld.split("=", 1)[1]
                elif fld.startswith("key="):
                    key = fld.split("=", 1)[1]
            if len(fields) > 2:
                text = fields[2]
            if prop and key:
                res[(prop, key)] = text
    return res


# ---------------------------------------------------------------------------------------------------------------------
#   minimisation
# ---------------------------------------------------------------------------------------------------------------------

def _still_fails(check: Check, scenario: dict, oracle: str, timeout: float) -> bool:
    out = safe_execute(check, scenario, timeout)
    return bool(out["violation"]) and out["violation"]["oracle"] == oracle


def minimise(check: Check, scenario: dict, oracle: str, wall: float, timeout: float) -> dict:
    """ddmin over the op list, then engine-specific argument shrinking, keeping the same oracle id."""
    t_end = _real_time.monotonic() + wall
    key = check.op_list_key()
    best = json.loads(json.dumps(scenario))
    ops = best.get(key)
    if isinstance(ops, list) and len(ops) > 1:
        n = 2
        while len(ops) >= 2 and _real_time.monotonic() < t_end:
            chunk = max(1, len(ops) // n)
            reduced = False
            for i in range(0, len(ops), chunk):
                cand_ops = ops[:i] + ops[i + chunk:]
                if not cand_ops:
                    continue
                cand = dict(best)
                cand[key] = cand_ops
                if _still_fails(check, cand, oracle, timeout):
                    best, ops = cand, cand_ops
                    n = max(n - 1, 2)
                    reduced = True
                    break
                if _real_time.monotonic() > t_end:
                    break
            if not reduced:
                if chunk == 1:
                    break
                n = min(len(ops), n * 2)
    # argument shrinking to a fixed point
    progress = True
    while progress and _real_time.monotonic() < t_end:
        progress = False
        for cand in check.shrink_candidates(best):
            if _real_time.monotonic() > t_end:
                break
            if _still_fails(check, cand, oracle, timeout):
                best = cand
                progress = True
                break
    return best


# ---------------------------------------------------------------------------------------------------------------------
#   batch runner
# ---------------------------------------------------------------------------------------------------------------------

def _chunks(seq, n):
    for i in range(0, len(seq), n):
        yield seq[i:i + n]


def run_seeds(check: Check, tier: str, seeds: list, workers: int, wall: float | None, want_fps: bool = False,
              chunk: int | None = None) -> dict:
    """Execute the given run seeds on a fork pool.  Returns merged aggregate.  Deterministic per seed; the pool
    schedule only decides which process runs which seed."""
    global _CHECK
    _CHECK = check
    check.preload()
    if hasattr(check, "prepare_seeds"):
        # batch-level preparation in the parent (e.g. cold reference values), inherited by the forked workers
        check.prepare_seeds(tier, seeds, workers)
    bud = check.budget(tier)
    chunk = chunk or bud.get("chunk", 1)
    tasks = [(tier, c, want_fps) for c in _chunks(seeds, chunk)]
    total = {"runs": 0, "events": 0, "faults": Counter(), "probes": Counter(), "sigs": set(), "inter": set(),
             "violations": [], "harness_errors": [], "samples": [], "fps": [], "chunk_fps": {},
             "budget_exhausted": False, "broken_pool": False}
    t0 = _real_time.monotonic()
    ctx = mp.get_context("fork")
    ex = ProcessPoolExecutor(max_workers=workers, mp_context=ctx)
    futs = {}
    try:
        for i, t in enumerate(tasks):
            futs[ex.submit(_worker_chunk, t)] = i
        pending = set(futs)
        for fut in as_completed(futs, timeout=None if wall is None else max(wall * 3, wall + 600)):
            i = futs[fut]
            pending.discard(fut)
            try:
                agg = fut.result()
            except BrokenProcessPool:
                total["broken_pool"] = True
                break
            total["runs"] += agg["runs"]
            total["events"] += agg["events"]
            total["faults"].update(agg["faults"])
            total["probes"].update(agg["probes"])
            total["sigs"] |= agg["sigs"]
            total["inter"] |= agg["inter"]
            total["violations"] += agg["violations"]
            total["harness_errors"] += agg["harness_errors"]
            if len(total["samples"]) < 6:
                total["samples"] += agg["samples"]
            total["fps"] += agg["fps"]
            total["chunk_fps"][i] = agg["fp_h"]
            if wall is not None and _real_time.monotonic() - t0 > wall and pending:
                # soft budget: stop handing out more work; what ran is what is reported
                total["budget_exhausted"] = True
                for p in pending:
                    p.cancel()
                break
    except TimeoutError:
        total["harness_errors"].append({"seed": None, "error": "batch exceeded hard wall cap"})
    finally:
        ex.shutdown(wait=True, cancel_futures=True)
    total["wall"] = _real_time.monotonic() - t0
    h = hashlib.sha256()
    for i in sorted(total["chunk_fps"]):
        h.update(total["chunk_fps"][i].encode())
    total["batch_fingerprint"] = h.hexdigest()[:16]
    return total


def write_replay(prop: str, seed, idx: int, scenario: dict, violation: dict) -> str:
    os.makedirs(REPLAY_DIR, exist_ok=True)
    path = os.path.join(REPLAY_DIR, f"{prop}-{seed}-{idx}.json")
    with open(path, "w") as f:
        json.dump({"property": prop, "run_seed": seed, "oracle": violation["oracle"],
                   "message": violation["message"], "key": violation.get("key"), "scenario": scenario},
                  f, indent=1, default=_json_default)
    return path


def confirm_replay_fresh(prop: str, path: str, oracle: str, timeout: float = 900) -> bool:
    """Re-execute the minimised file in a fresh interpreter: it must fail the same way."""
    cmd = [sys.executable, os.path.join(VERIF_DIR, "check.py"), prop, "--replay", path, "--no-evidence"]
    try:
        p = subprocess.run(cmd, capture_output=True, text=True, timeout=timeout)
    except subprocess.TimeoutExpired:
        return False
    return p.returncode == EXIT_VIOLATION and f"oracle={oracle}" in p.stdout


def run_check(check: Check, tier: str, seed: int, workers: int = N_WORKERS, evidence: bool = True) -> int:
    t0 = _real_time.monotonic()
    check.batch_seed = seed
    bud = check.budget(tier)
    known = load_known_findings()
    master = master_rng(seed, check.prop, tier)
    seeds = [master.getrandbits(48) for _ in range(bud["runs"])]
    printed_known = {}
    violations = []
    harness_errors = []

    # 1. directed scenarios of known findings (printed on every run while the defect exists)
    check.preload()
    directed_n = 0
    for fn, rec in check.directed_scenarios():
        directed_n += 1
        out = safe_execute(check, rec["scenario"], bud.get("run_timeout", 120) * 4)
        if out["harness_error"]:
            harness_errors.append({"seed": fn, "error": out["harness_error"]})
        elif out["violation"]:
            v = out["violation"]
            if (check.prop, v.get("key")) in known:
                printed_known.setdefault(v["key"], v["message"])
            else:
                violations.append({"seed": fn, "violation": v, "scenario": rec["scenario"]})

    # 2. seeded search
    total = run_seeds(check, tier, seeds, workers, bud.get("wall"))
    # a run that hit its wall cap while the whole machine was busy is run once more, alone and with three times the cap,
    # before it is called a hang: a loaded machine must not turn into an alarm of any kind (its result is judged as usual)
    slow = [he for he in total["harness_errors"] if he.get("seed") is not None and "wall cap" in str(he["error"])][:8]
    if slow:
        total["harness_errors"] = [he for he in total["harness_errors"] if he not in slow]
        for he in slow:
            res = run_isolated(_one_run, check, tier, he["seed"], bud.get("run_timeout", 120) * 3)
            if isinstance(res, dict) and "__isolated_error__" in res:
                total["harness_errors"].append({"seed": he["seed"], "error": res["__isolated_error__"]})
                continue
            scenario, out = res
            total["probes"]["slow_run_repeated_alone"] = total["probes"].get("slow_run_repeated_alone", 0) + 1
            if scenario is None or out["harness_error"]:
                total["harness_errors"].append({"seed": he["seed"], "error": out["harness_error"], "scenario": scenario})
            elif out["violation"]:
                total["violations"].append({"seed": he["seed"], "violation": out["violation"],
                                            "scenario": out.get("violation_scenario") or scenario})
    harness_errors += total["harness_errors"]
    if total["broken_pool"]:
        harness_errors.append({"seed": None, "error": "a worker process died (BrokenProcessPool)"})
    for v in sorted(total["violations"], key=lambda r: r["seed"]):
        k = v["violation"].get("key")
        if k is not None and (check.prop, k) in known:
            printed_known.setdefault(k, v["violation"]["message"])
        else:
            violations.append(v)

    # 2b. thorough tier: determinism probe of this engine (same seeds on 16 workers and on 3 workers in reversed
    #     order must give identical per-run fingerprints); a difference is a harness error, never a violation
    selftest_note = None
    if tier == "thorough" and not os.environ.get("VERIF_SKIP_SELFTEST"):
        sub = seeds[: bud.get("selftest_seeds", 16)]
        a = dict(run_seeds(check, tier, sub, workers, None, want_fps=True, chunk=1)["fps"])
        b = dict(run_seeds(check, tier, list(reversed(sub)), 3, None, want_fps=True,
                           chunk=max(1, len(sub) // 6))["fps"])
        diff = [s_ for s_ in sub if a.get(s_) != b.get(s_)]
        selftest_note = {"seeds": len(sub), "mismatches": len(diff)}
        for s_ in diff[:3]:
            harness_errors.append({"seed": s_, "error": f"non-deterministic run: fingerprint {a.get(s_)} on {workers} "
                                                         f"workers, {b.get(s_)} on 3 workers"})
    total["selftest"] = selftest_note

    for k, msg in sorted(printed_known.items()):
        print(f"KNOWN-FINDING: property={check.prop} key={k} {msg}", flush=True)

    # 3. minimise + replay files (a few, one per distinct oracle)
    reported = []
    seen_oracles = set()
    for v in violations:
        orc = v["violation"]["oracle"]
        if orc in seen_oracles or len(reported) >= 3:
            continue
        seen_oracles.add(orc)
        scen = v["scenario"]
        try:
            scen_min = minimise(check, scen, orc, bud.get("min_wall", 60), bud.get("run_timeout", 120))
        except Exception:  # noqa: BLE001
            scen_min = scen
        out = safe_execute(check, scen_min, bud.get("run_timeout", 120) * 2)
        viol = out["violation"] if out["violation"] and out["violation"]["oracle"] == orc else v["violation"]
        if not (out["violation"] and out["violation"]["oracle"] == orc):
            scen_min = scen
        path = write_replay(check.prop, v["seed"], len(reported), scen_min, viol)
        ok = confirm_replay_fresh(check.prop, path, orc)
        if not ok:
            # try the unminimised scenario before giving up on determinism
            path = write_replay(check.prop, v["seed"], len(reported), scen, v["violation"])
            ok = confirm_replay_fresh(check.prop, path, orc)
        if not ok:
            harness_errors.append({"seed": v["seed"], "error": f"violation {orc} did not replay in a fresh process "
                                                                  f"({path}); treated as harness non-determinism"})
            continue
        reported.append((path, viol))
        print(f"VIOLATION property={check.prop} replay={path} oracle={orc} :: {viol['message'][:300]}", flush=True)

    wall = _real_time.monotonic() - t0
    if evidence:
        write_evidence(check, tier, seed, total, directed_n, printed_known, len(violations), harness_errors, wall)

    if harness_errors:
        for he in harness_errors[:5]:
            print(f"HARNESS-ERROR property={check.prop} seed={he.get('seed')} :: "
                  f"{str(he['error']).strip().splitlines()[-1][:300]}", flush=True)
            if os.environ.get("VERIF_DEBUG"):
                print(he["error"])
    if reported:
        return EXIT_VIOLATION
    if harness_errors:
        return EXIT_HARNESS
    print(f"OK property={check.prop} tier={tier} seed={seed} runs={total['runs']} "
          f"distinct_nontrivial={len(total['sigs'])} events={total['events']} wall={wall:.1f}s", flush=True)
    return EXIT_OK


def write_evidence(check: Check, tier: str, seed: int, total: dict, directed_n: int, printed_known: dict,
                   n_viol: int, harness_errors: list, wall: float):
    os.makedirs(EVIDENCE_DIR, exist_ok=True)
    runs = total["runs"]
    search_wall = max(total.get("wall", wall), 1e-9)
    cov = {
        "evaluations": int(runs + directed_n),
        "distinct_nontrivial": int(len(total["sigs"])),
        "rule": check.rule,
        "samples": total["samples"][:4] or [{"note": "no non-trivial run completed"}],
        "events_simulated": int(total["events"]),
        "simulated_time": "molgri has no timers: time is the simulator's global event sequence number; "
                          "events_simulated is the total covered",
        "runs_per_hour": int(runs / search_wall * 3600),
        "seeds_per_hour": int(runs / search_wall * 3600),
        "faults_fired": {k: int(v) for k, v in sorted(total["faults"].items())},
        "reach_probes": {k: int(v) for k, v in sorted(total["probes"].items())},
        "distinct_interleavings": int(len(total["inter"])),
        "directed_known_finding_scenarios": directed_n,
        "known_findings_printed": sorted(printed_known),
        "batch_fingerprint": total.get("batch_fingerprint"),
        "budget_exhausted": bool(total.get("budget_exhausted")),
        "determinism_probe": total.get("selftest"),
        "harness_errors": len(harness_errors),
        "workers": N_WORKERS,
        "components": check.components,
        "exhaustive": False,
    }
    ev = {"property_id": check.prop, "tier": tier, "seed": int(seed), "level": "exploration", "coverage": cov,
          "assumptions": list(check.assumptions), "wall_s": round(wall, 2), "violations": int(n_viol)}
    path = os.path.join(EVIDENCE_DIR, f"{check.prop}.json")
    tmp = path + ".tmp"
    with open(tmp, "w") as f:
        json.dump(ev, f, indent=1, default=_json_default)
    os.replace(tmp, path)


def run_replay(check: Check, path: str) -> int:
    with open(path) as f:
        rec = json.load(f)
    scenario = rec["scenario"] if "scenario" in rec else rec
    check.preload()
    known = load_known_findings()
    out = safe_execute(check, scenario, check.budget("thorough").get("run_timeout", 120) * 4)
    if out["harness_error"]:
        print(f"HARNESS-ERROR property={check.prop} replay={path} :: {out['harness_error']}")
        return EXIT_HARNESS
    if out["violation"]:
        v = out["violation"]
        if (check.prop, v.get("key")) in known:
            print(f"KNOWN-FINDING: property={check.prop} key={v['key']} {v['message']}")
            return EXIT_OK
        print(f"VIOLATION property={check.prop} replay={path} oracle={v['oracle']} :: {v['message'][:600]}")
        return EXIT_VIOLATION
    print(f"OK property={check.prop} replay={path} fingerprint={out.get('fingerprint')}")
    return EXIT_OK
