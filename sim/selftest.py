"""
Determinism self-test of the simulator: one run seed must be one exactly repeatable execution.

For every engine/property: N run seeds, each executed (a) on a 16-worker pool, (b) again on a 3-worker pool in reversed
order (so that every seed lands in a different process with a different history of earlier runs), (c) in a fresh
interpreter under another PYTHONHASHSEED.  The per-run fingerprints (sha256 of the event log: operations, faults and
result digests) must be identical.  Any difference is a HARNESS-ERROR (exit 2), never a violation.
"""
from __future__ import annotations

import json
import os
import subprocess
import sys
import time

from . import core
from .registry import ALL_PROPS, get_check

N_SEEDS = {"quick": {"C08": 24, "C10": 64, "C11": 32, "C13": 600, "C14": 24, "C18": 24, "C20": 64},
           "thorough": {"C08": 160, "C10": 600, "C11": 200, "C13": 20000, "C14": 160, "C18": 120, "C20": 600}}


def fingerprints(check, tier: str, seeds: list, workers: int) -> dict:
    total = core.run_seeds(check, tier, seeds, workers, wall=None, want_fps=True, chunk=max(1, len(seeds) // (workers * 3)))
    fps = dict(total["fps"])
    errs = total["harness_errors"]
    return fps, errs, total


def probe(check, tier: str, seeds: list) -> list:
    """In-process part (a)+(b); returns list of mismatch descriptions."""
    a, ea, _ = fingerprints(check, tier, seeds, 16)
    b, eb, _ = fingerprints(check, tier, list(reversed(seeds)), 3)
    bad = []
    for e in (ea + eb)[:3]:
        bad.append(f"harness error in seed {e.get('seed')}: {str(e['error']).strip().splitlines()[-1][:200]}")
    for s in seeds:
        if a.get(s) != b.get(s):
            bad.append(f"seed {s}: fingerprint {a.get(s)} on 16 workers, {b.get(s)} on 3 workers")
    return bad, a


def child_main(prop: str, tier: str, seeds: list) -> int:
    check = get_check(prop)
    check.batch_seed = int(os.environ.get("VERIF_SEED", "0") or 0)
    fps, errs, _ = fingerprints(check, tier, seeds, 8)
    print("@@FPS@@" + json.dumps({"fps": {str(k): v for k, v in fps.items()},
                                   "errors": [str(e["error"])[-300:] for e in errs[:3]]}))
    return 0


def main(tier: str, seed: int, props=None) -> int:
    t0 = time.monotonic()
    props = props or sorted(ALL_PROPS)
    failures = []
    report = {}
    for prop in props:
        check = get_check(prop)
        check.batch_seed = seed
        n = N_SEEDS[tier][prop]
        master = core.master_rng(seed, prop, "selftest-" + tier)
        seeds = [master.getrandbits(48) for _ in range(n)]
        t1 = time.monotonic()
        bad, a = probe(check, tier, seeds)
        # (c) fresh interpreter, other hash seed
        env = dict(os.environ)
        env.pop("MOLGRI_VERIF_CHILD", None)
        env["VERIF_HASHSEED"] = "987654321"
        env["VERIF_SEED"] = str(seed)
        import tempfile
        with tempfile.NamedTemporaryFile("w", suffix=".json", delete=False) as tf:
            json.dump(seeds, tf)
        p = subprocess.run([sys.executable, os.path.join(core.VERIF_DIR, "check.py"), "selftest-child", "--tier", tier,
                            "--child-prop", prop, "--child-seeds", "@" + tf.name],
                           capture_output=True, text=True, env=env)
        os.unlink(tf.name)
        idx = p.stdout.rfind("@@FPS@@")
        if p.returncode != 0 or idx < 0:
            bad.append(f"fresh interpreter failed rc={p.returncode}: {p.stderr[-300:]}")
            c = {}
        else:
            rec = json.loads(p.stdout[idx + 7:])
            c = {int(k): v for k, v in rec["fps"].items()}
            for e in rec["errors"]:
                bad.append(f"fresh interpreter harness error: {e}")
        for s in seeds:
            if c and a.get(s) != c.get(s):
                bad.append(f"seed {s}: fingerprint {a.get(s)} under PYTHONHASHSEED=0, {c.get(s)} under 987654321")
        report[prop] = {"seeds": n, "mismatches": len(bad), "wall_s": round(time.monotonic() - t1, 1)}
        status = "ok" if not bad else "MISMATCH"
        print(f"selftest {prop}: {n} seeds x (16 workers, 3 workers reversed, fresh interpreter other hash seed): "
              f"{status} ({report[prop]['wall_s']}s)", flush=True)
        for bmsg in bad[:5]:
            print(f"HARNESS-ERROR selftest property={prop} :: {bmsg}", flush=True)
        failures += bad
    os.makedirs(core.EVIDENCE_DIR, exist_ok=True)
    with open(os.path.join(core.EVIDENCE_DIR, "selftest.json"), "w") as f:
        json.dump({"tier": tier, "seed": seed, "report": report, "wall_s": round(time.monotonic() - t0, 1),
                   "method": "same run seed on 16 workers, on 3 workers in reversed order, and in a fresh interpreter "
                             "under another PYTHONHASHSEED; per-run event-log fingerprints compared"}, f, indent=1)
    return core.EXIT_HARNESS if failures else core.EXIT_OK
