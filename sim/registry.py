"""Property id -> check object."""
from __future__ import annotations


def _merger():
    from .merger import MergerCheck
    return MergerCheck()


def _session():
    from .session import SessionCheck
    return SessionCheck()


def _polytope():
    from .session import PolytopeCheck
    return PolytopeCheck()


_FACTORIES = {
    "C08": _session,
    "C13": _merger,
    "C18": _polytope,
}

ALL_PROPS = set(_FACTORIES)


def get_check(prop: str):
    return _FACTORIES[prop]()
