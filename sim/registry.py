"""Property id -> check object."""
from __future__ import annotations


def _merger():
    from .merger import MergerCheck
    return MergerCheck()


_FACTORIES = {
    "C13": _merger,
}

ALL_PROPS = set(_FACTORIES)


def get_check(prop: str):
    return _FACTORIES[prop]()
