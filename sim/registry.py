"""Property id -> check object."""
from __future__ import annotations


def _merger():
    from .merger import MergerCheck
    return MergerCheck()


def _session():
    from .session import SessionCheck
    return SessionCheck()


def _polytope():
    from .session import PolytopeCheck
    return PolytopeCheck()


def _pipeline():
    from .pipeline import PipelineCheck
    return PipelineCheck()


def _persistence():
    from .pipeline import PersistenceCheck
    return PersistenceCheck()


def _pseudotraj():
    from .walker import PseudotrajCheck
    return PseudotrajCheck()


def _assignment():
    from .walker import AssignmentCheck
    return AssignmentCheck()


_FACTORIES = {
    "C10": _pseudotraj,
    "C11": _assignment,
    "C14": _pipeline,
    "C20": _persistence,
    "C08": _session,
    "C13": _merger,
    "C18": _polytope,
}

ALL_PROPS = set(_FACTORIES)


def get_check(prop: str):
    return _FACTORIES[prop]()
