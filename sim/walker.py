"""
Engine `walker` (properties C10 and C11).

C10: pseudotrajectory generators are cooperative tasks (surface S8): 1-3 Pseudotrajectory objects built from the *same*
source universes are advanced one frame at a time in seeded order, cancelled and restarted, drained through
get_pt_as_universe and read back in random order, with global-RNG faults in between; every frame is compared with an
independent rigid-body reference model.

C11: the trajectory is the history of a simulated rigid-body walker on SE(3); the worker pool of AssignmentTool is
replaced by SimPool (same pickling/chunking contract, seeded schedule, duplicated chunk delivery); every frame's
assignment is compared with the geometric reference model.
"""
from __future__ import annotations

import os
import pickle
import random

import numpy as np

from .core import Check, EventLog, Violation, HarnessError, World, RngSeam, lib_call, quiet, digest_array

REPO_MOLECULES = ["H2O.gro", "NH3.gro", "glucose.xyz", "CL.gro", "NA.gro", "H2O.xyz"]
ELEMENTS = ["C", "N", "O", "H", "S", "P", "F"]
MASS = {"C": 12.011, "N": 14.007, "O": 15.999, "H": 1.008, "S": 32.06, "P": 30.974, "F": 18.998}


# ---------------------------------------------------------------------------------------------------------------------
#   molecules and rigid-body maths (reference side, independent of the library)
# ---------------------------------------------------------------------------------------------------------------------

def write_molecule(path: str, atoms: list, fmt: str):
    """atoms: [(element, x, y, z)] in Angstrom."""
    if fmt == "xyz":
        with open(path, "w") as f:
            f.write(f"{len(atoms)}\nsimulated molecule\n")
            for el, x, y, z in atoms:
                f.write(f"{el} {x:.5f} {y:.5f} {z:.5f}\n")
    elif fmt == "gro":
        with open(path, "w") as f:
            f.write("simulated molecule\n%5d\n" % len(atoms))
            for i, (el, x, y, z) in enumerate(atoms):
                f.write("%5d%-5s%5s%5d%8.3f%8.3f%8.3f\n" % (1, "MOL", f"{el}{i + 1}"[:5], i + 1, x / 10, y / 10, z / 10))
            f.write("   3.00000   3.00000   3.00000\n")
    elif fmt == "pdb":
        with open(path, "w") as f:
            f.write("CRYST1   30.000   30.000   30.000  90.00  90.00  90.00 P 1           1\n")
            for i, (el, x, y, z) in enumerate(atoms):
                f.write("ATOM  %5d %-4s %3s %1s%4d    %8.3f%8.3f%8.3f%6.2f%6.2f          %2s\n" %
                        (i + 1, f"{el}{i + 1}"[:4], "MOL", "A", 1, x, y, z, 1.0, 0.0, el))
            f.write("END\n")
    else:
        raise HarnessError(fmt)


def molecule_path(spec: dict, scratch: str, tag: str) -> str:
    if spec["source"] == "repo":
        import molgri
        return os.path.join(os.path.dirname(molgri.__file__), "examples", spec["file"])
    path = os.path.join(scratch, f"{tag}.{spec['fmt']}")
    write_molecule(path, spec["atoms"], spec["fmt"])
    return path


def quat_to_matrix(q) -> np.ndarray:
    """Scalar-last (x, y, z, w) unit quaternion -> rotation matrix; written out, not taken from scipy."""
    x, y, z, w = np.asarray(q, dtype=float) / np.linalg.norm(q)
    return np.array([[1 - 2 * (y * y + z * z), 2 * (x * y - z * w), 2 * (x * z + y * w)],
                     [2 * (x * y + z * w), 1 - 2 * (x * x + z * z), 2 * (y * z - x * w)],
                     [2 * (x * z - y * w), 2 * (y * z + x * w), 1 - 2 * (x * x + y * y)]])


def com(x: np.ndarray, m: np.ndarray) -> np.ndarray:
    return (x * m[:, None]).sum(axis=0) / m.sum()


def place(x_ref: np.ndarray, m: np.ndarray, q, p) -> np.ndarray:
    c = com(x_ref, m)
    return (x_ref - c) @ quat_to_matrix(q).T + c + np.asarray(p, dtype=float)


def place_com(x_ref: np.ndarray, m: np.ndarray, q, p) -> np.ndarray:
    """Reference rotated about its centre of mass, centre of mass put AT p (wherever the reference sits)."""
    return (x_ref - com(x_ref, m)) @ quat_to_matrix(q).T + np.asarray(p, dtype=float)


def random_unit_quaternion(rng: random.Random) -> list:
    while True:
        v = [rng.gauss(0, 1) for _ in range(4)]
        n = sum(a * a for a in v) ** 0.5
        if n > 1e-3:
            return [a / n for a in v]


def principal_moments(x, m):
    c = com(x, m)
    y = x - c
    I = np.zeros((3, 3))
    for yi, mi in zip(y, m):
        I += mi * (np.dot(yi, yi) * np.eye(3) - np.outer(yi, yi))
    w, v = np.linalg.eigh(I)
    return w, v, y


def gen_molecule(rng: random.Random, kind: str, n_atoms: int, dummy_ok: bool = False) -> list:
    if kind == "single":
        return [(rng.choice(ELEMENTS), 0.3, -0.2, 0.1)]
    if kind == "linear":
        d = [rng.gauss(0, 1) for _ in range(3)]
        nrm = sum(a * a for a in d) ** 0.5
        d = [a / nrm for a in d]
        return [(rng.choice(ELEMENTS), *(round(i * 1.1 * a + 0.2, 3) for a in d)) for i in range(max(2, n_atoms))]
    atoms = []
    for i in range(n_atoms):
        z = 0.0 if kind == "planar" else round(rng.uniform(-1.6, 1.6), 3)
        atoms.append((rng.choice(ELEMENTS), round(rng.uniform(-1.8, 1.8), 3), round(rng.uniform(-1.8, 1.8), 3), z))
    if dummy_ok and n_atoms >= 2 and rng.random() < 0.2:
        # a virtual site (TIP4P MW, lone pair): MDAnalysis guesses mass 0 for it, the centre of mass ignores it
        k = rng.randrange(1, n_atoms)
        atoms[k] = (rng.choice(["MW", "LP", "X"]),) + tuple(atoms[k][1:])
    return atoms


def gen_asymmetric_molecule(rng: random.Random, planar: bool) -> list:
    """Three distinct principal moments (relative gaps >= 5 %) and no atom ambiguously close to a principal plane,
    so that the orientation of the principal-axis frame is well defined (C11's stated domain)."""
    for _ in range(2000):
        n = rng.randint(3, 8) if planar else rng.randint(4, 8)
        atoms = gen_molecule(rng, "planar" if planar else "generic", n)
        x = np.array([a[1:] for a in atoms], dtype=float)
        m = np.array([MASS[a[0]] for a in atoms])
        if len({tuple(r) for r in np.round(x, 1)}) < n:
            continue
        w, v, y = principal_moments(x, m)
        if w[0] < 1e-3:
            continue
        gaps = [(w[1] - w[0]) / w[1], (w[2] - w[1]) / w[2]]
        if min(gaps) < 0.08:
            continue
        proj = np.abs(y @ v)
        if planar:
            # the normal is the axis of the largest moment; in-plane projections must be clearly non-zero
            if np.any(proj[:, :2] < 0.15):
                continue
        elif np.any(proj < 0.15):
            continue
        return atoms
    raise HarnessError("could not generate an asymmetric molecule")


def gen_symmetric_molecule(rng: random.Random, kind: str) -> list:
    """Molecules with symmetry-equivalent atoms and atoms ON principal axes / planes - still three distinct principal
    moments.  kind 'c2v_planar': mirror pairs (+-x, y, 0) plus atoms on the axis (0, y, 0) (water, formaldehyde ...);
    kind 'c2': pairs (x, y, z), (-x, -y, z) plus atoms on the z axis (H2O2, S2Cl2 ...).  Atom order is shuffled: which
    atom comes first or last must not matter."""
    for _ in range(3000):
        atoms = []
        for _p in range(rng.randint(1, 3)):
            el = rng.choice(ELEMENTS)
            x, y = round(rng.uniform(0.4, 1.8), 3), round(rng.uniform(-1.8, 1.8), 3)
            z = 0.0 if kind == "c2v_planar" else round(rng.uniform(-1.5, 1.5), 3)
            if kind == "c2v_planar":
                atoms += [(el, x, y, 0.0), (el, -x, y, 0.0)]
            else:
                atoms += [(el, x, y, z), (el, -x, -y, z)]
        for _a in range(rng.randint(0, 2)):
            el = rng.choice(ELEMENTS)
            if kind == "c2v_planar":
                atoms.append((el, 0.0, round(rng.uniform(-1.8, 1.8), 3), 0.0))
            else:
                atoms.append((el, 0.0, 0.0, round(rng.uniform(-1.8, 1.8), 3)))
        if len(atoms) < 3:
            continue
        x = np.array([a[1:] for a in atoms], dtype=float)
        m = np.array([MASS[a[0]] for a in atoms])
        if len({tuple(r) for r in np.round(x, 1)}) < len(atoms):
            continue
        w, v, y = principal_moments(x, m)
        if w[0] < 1e-3 or min((w[1] - w[0]) / w[1], (w[2] - w[1]) / w[2]) < 0.08:
            continue
        proj = np.abs(y @ v)
        # every projection is either clearly non-zero or zero by symmetry; at least one atom fixes all (non-planar) or
        # both in-plane (planar) directions
        if np.any((proj > 1e-9) & (proj < 0.15)):
            continue
        n_zero = (proj < 1e-9).sum(axis=1)
        if kind == "c2v_planar" and not np.any(n_zero == 1):
            continue
        if kind == "c2" and not np.any(n_zero == 0):
            continue
        rng.shuffle(atoms)
        return atoms
    raise HarnessError("could not generate a symmetric molecule")


# ---------------------------------------------------------------------------------------------------------------------
#   C10
# ---------------------------------------------------------------------------------------------------------------------

class PseudotrajCheck(Check):
    prop = "C10"
    engine = "walker"
    rule = ("one run = 1-3 Pseudotrajectory tasks built from the same two source universes (read through "
            "OneMoleculeReader from repository molecules or simulator-written .gro/.xyz/.pdb files with 1-12 atoms: "
            "single atom, linear, planar, generic) over grid arrays (real FullGrid arrays or arbitrary rows: unit "
            "quaternions of either sign incl. identity, positions incl. 0 and ~100 A); the generators are advanced one "
            "frame at a time in seeded order, cancelled mid-way and restarted, drained via get_pt_as_universe and read "
            "in random order twice, one-molecule views taken, PtWriter driven to memory / .xtc / a directory of .xyz files "
            "(optionally write_structure first; in half of the file-writing runs the output paths still hold the files of an "
            "earlier or interrupted run, newer or older than the grid file), global RNG perturbed in between; a few yielded frames are kept and judged "
            "again at the end. Molecules may carry a massless virtual site; rows include rotations at the boundary of the "
            "identity and of a half turn. Every frame is compared "
            "atom by atom (1e-4 A) with x' = R(q_k)(x_ref - com) + com + p_k, R by an independent formula. "
            "Non-trivial: >=2 tasks interleaved or a cancel/drain/fault happened, and >=2 frames checked. Distinct = "
            "distinct hash of (molecule kinds, #rows bucket, schedule of (op, task)).")
    components = {"real": ["molgri.molecules.pts.Pseudotrajectory", "molgri.io.OneMoleculeReader",
                           "molgri.space.fullgrid.FullGrid (for real grid arrays)",
                           "MDAnalysis readers, Merge, MemoryReader, on-the-fly transformations", "scipy Rotation"],
                  "stub": ["the scheduler advancing the generators (simulated)", "molecule files written by the "
                           "simulator in .gro/.xyz/.pdb"]}
    assumptions = ["one generator per Pseudotrajectory object (as documented); exhausted objects are not re-used",
                   "the caller never mutates the source universes", "tolerance 1e-4 A for |coordinates| <= 100 A "
                   "(positions are float32)", "masses as guessed by MDAnalysis from the files"]

    def budget(self, tier):
        if tier == "quick":
            return {"runs": 900, "chunk": 8, "wall": 150, "run_timeout": 120, "min_wall": 45}
        return {"runs": 24000, "chunk": 16, "wall": 1500, "run_timeout": 300, "min_wall": 200}

    def preload(self):
        import molgri.molecules.pts  # noqa: F401
        import molgri.io  # noqa: F401
        import molgri.space.fullgrid  # noqa: F401

    def _gen_molspec(self, rng):
        if rng.random() < 0.35:
            return {"source": "repo", "file": rng.choice(REPO_MOLECULES)}
        kind = rng.choice(["single", "linear", "planar", "generic", "generic"])
        n = rng.randint(2, 12) if rng.random() < 0.9 else rng.randint(13, 40)
        return {"source": "gen", "fmt": rng.choice(["gro", "xyz", "pdb"]), "kind": kind,
                "atoms": gen_molecule(rng, kind, n, dummy_ok=True)}

    def _gen_rows(self, rng, tier):
        if rng.random() < 0.3:
            b = rng.choice(["1", "4", "5", "8", "cube4D_6", "randomQ_5"])
            o = rng.choice(["1", "2", "4", "6", "ico_5", "cube3D_7", "randomS_3"])
            t = rng.choice(["[0.1, 0.2]", "[0.3]", "linspace(0.1, 0.5, 3)"])
            return {"grid": {"b": b, "o": o, "t": t}}
        n = rng.choice([1, 2, 3, 5, 8, rng.randint(1, 40)])
        rows = []
        for _ in range(n):
            r = rng.random()
            if r < 0.15:
                q = [0.0, 0.0, 0.0, 1.0]
            elif r < 0.25:
                q = [0.0, 0.0, 0.0, -1.0]
            elif r < 0.35:
                q = rng.choice([[1.0, 0, 0, 0], [0, 1.0, 0, 0], [0, 0, 1.0, 0], [0.5, 0.5, 0.5, 0.5],
                                [-0.5, 0.5, -0.5, 0.5]])
            elif r < 0.5:
                # boundary values of the rotation: almost the identity (either sign), almost a half turn
                ax = random_unit_quaternion(rng)[:3]
                nn = sum(a * a for a in ax) ** 0.5 or 1.0
                eps = rng.choice([1e-7, 1e-5, 1e-4, 1e-3, 4e-3, 2e-2])
                if rng.random() < 0.6:
                    q = _unit([a / nn * eps for a in ax] + [rng.choice([1.0, -1.0])])
                else:
                    q = _unit([a / nn for a in ax] + [rng.choice([eps, -eps])])
            else:
                q = random_unit_quaternion(rng)
            r = rng.random()
            if r < 0.15:
                p = [0.0, 0.0, 0.0]
            elif r < 0.3:
                d = random_unit_quaternion(rng)[:3]
                nn = sum(a * a for a in d) ** 0.5 or 1.0
                p = [a / nn * rng.uniform(60, 100) for a in d]
            else:
                p = [rng.uniform(-12, 12) for _ in range(3)]
            rows.append([*p, *q])
        return {"rows": rows}

    def generate(self, rng, tier):
        mol1, mol2 = self._gen_molspec(rng), self._gen_molspec(rng)
        if rng.random() < 0.06:
            mol1 = dict(mol2)
            mol1["same_object"] = True  # the very same universe object handed in as molecule 1 and molecule 2
        if rng.random() < 0.12:
            # the workflow's rule run_pt: grid file -> PtWriter -> trajectory file(s) -> a reader in another stage
            rows = self._gen_rows(rng, tier)
            sc = {"kind": "ptwriter", "mol1": mol1, "mol2": mol2, "tasks": [rows], "cell": rng.choice([30.0, 250.0]),
                  "out": rng.choice(["memory", "xtc", "xyzdir"]), "rng_init": rng.randrange(2 ** 32),
                  "structure_first": rng.choice([None, None, 5.0, 12.5]),
                  "ops": [{"op": "fault", "fault": RngSeam.generate(rng)}] if rng.random() < 0.3 else []}
            if sc["out"] != "memory" and rng.random() < 0.5:
                # the output paths still hold what an earlier (other molecules, other grid) or interrupted run left there
                sc["stale"] = {"kind": rng.choice(["other_run", "other_run", "torn", "older_than_grid"]),
                               "frac": rng.choice([0.3, 0.6, 1.0]), "seed": rng.randrange(2 ** 32)}
            return sc
        n_tasks = rng.choice([1, 2, 2, 3])
        tasks = [self._gen_rows(rng, tier) for _ in range(n_tasks)]
        if rng.random() < 0.4 and n_tasks > 1:
            tasks[1] = tasks[0]  # two objects over the same array
        fault_rate = rng.choice([0.0, 0.1, 0.25])
        ops = []
        kinds = ["step"] * 12 + ["cancel", "drain", "one_molecule", "step_burst"]
        for _ in range(rng.randint(6, 60 if tier == "quick" else 120)):
            if rng.random() < fault_rate:
                ops.append({"op": "fault", "fault": RngSeam.generate(rng)})
                continue
            k = rng.choice(kinds)
            op = {"op": k, "task": rng.randrange(n_tasks)}
            if k == "drain":
                op["read_seed"] = rng.randrange(2 ** 31)
            if k == "one_molecule":
                op["mol2"] = rng.random() < 0.6
            if k == "step_burst":
                op["n"] = rng.randint(2, 10)
            ops.append(op)
        return {"kind": "pt", "mol1": mol1, "mol2": mol2, "tasks": tasks, "rng_init": rng.randrange(2 ** 32),
                "dimensions": rng.choice([None, None, [30.0, 30.0, 30.0, 90.0, 90.0, 90.0]]), "ops": ops}

    # ------------------------------------------------------------------ execution
    def _exec_ptwriter(self, sc):
        import MDAnalysis as mda
        from molgri.io import OneMoleculeReader, PtWriter
        log = EventLog()
        faults, probes = {}, {}
        with World(rng_init=sc.get("rng_init", 0xC0FFEE)) as world:
            d = world.make_scratch()
            p1, p2 = molecule_path(sc["mol1"], d, "m1"), molecule_path(sc["mol2"], d, "m2")
            with lib_call("OneMoleculeReader"):
                u1 = OneMoleculeReader(p1).get_molecule()
                u2 = OneMoleculeReader(p2).get_molecule()
            ref1 = np.array(u1.atoms.positions, dtype=float)
            ref2 = np.array(u2.atoms.positions, dtype=float)
            m2 = np.array(u2.atoms.masses, dtype=float)
            names = list(u1.atoms.names) + list(u2.atoms.names)
            t = sc["tasks"][0]
            if "grid" in t:
                from molgri.space.fullgrid import FullGrid
                with lib_call(f"FullGrid({t['grid']})"):
                    g = FullGrid(t["grid"]["b"], t["grid"]["o"], t["grid"]["t"])
                    rows = np.array(g.get_full_grid_as_array(), dtype=float)
            else:
                rows = np.array(t["rows"], dtype=float).reshape(-1, 7)
            if len(rows) == 0:
                return {"events": 0, "fingerprint": "empty", "faults": {}, "probes": {}, "sig": None, "nontrivial": False}
            gpath = os.path.join(d, "full_array.npy")
            np.save(gpath, rows)
            for op in sc["ops"]:
                if op["op"] == "fault":
                    RngSeam.apply(op["fault"])
                    faults[op["fault"]["kind"]] = faults.get(op["fault"]["kind"], 0) + 1
            with lib_call("PtWriter(...)"):
                w = PtWriter(p1, p2, cell_size_A=sc["cell"], path_grid=gpath)
            if sc.get("structure_first"):
                # the other public output of the writer, asked for before the pseudotrajectory
                with lib_call("PtWriter.write_structure"):
                    w.write_structure(sc["structure_first"], os.path.join(d, "start_structure.gro"))
                probes["write_structure_before_pt"] = 1
            exp = [np.vstack([ref1, place(ref2, m2, r[3:], r[:3])]) for r in rows]

            def judge(pos, k, tol, what):
                pos = np.asarray(pos, dtype=float)
                if pos.shape != exp[k].shape:
                    raise Violation("frame-shape", f"{what}: {pos.shape[0]} atoms, expected {exp[k].shape[0]}")
                dev = float(np.abs(pos - exp[k]).max(initial=0))
                if dev > tol * max(1.0, np.abs(exp[k]).max() / 100.0):
                    raise Violation("frame-placement", f"{what}: deviates by {dev:.3g} A from the rigid placement of "
                                                       f"grid row {k} {rows[k].tolist()}")

            uni = w.pt_universe
            if len(uni.trajectory) != len(rows):
                raise Violation("frame-count", f"PtWriter universe has {len(uni.trajectory)} frames for {len(rows)} rows")
            types = list(u1.atoms.types) + list(u2.atoms.types)
            if list(uni.atoms.names) != names or list(uni.atoms.types) != types:
                raise Violation("atom-order", f"PtWriter universe atoms {list(uni.atoms.names)} / "
                                              f"{list(uni.atoms.types)} != {names} / {types}")
            for k in range(len(rows)):
                with lib_call(f"pt_universe.trajectory[{k}]"):
                    uni.trajectory[k]
                    pos = np.array(uni.atoms.positions)
                judge(pos, k, 1e-4, f"PtWriter in-memory frame {k}")
            checked = len(rows)
            if sc.get("stale"):
                self._leave_stale_outputs(sc, d, len(rows), len(exp[0]), gpath)
                faults["stale_output_" + sc["stale"]["kind"]] = 1
            if sc["out"] == "xtc":
                xtc, gro = os.path.join(d, "trajectory.xtc"), os.path.join(d, "structure.gro")
                with lib_call("PtWriter.write_full_pt"):
                    w.write_full_pt(xtc, gro)
                back = mda.Universe(gro, xtc)
                if len(back.trajectory) != len(rows):
                    raise Violation("frame-count", f"written trajectory has {len(back.trajectory)} frames for "
                                                   f"{len(rows)} rows")
                for k, ts in enumerate(back.trajectory):
                    judge(back.atoms.positions, k, 2e-2, f"frame {k} read back from the .xtc file")
                probes["xtc_roundtrip"] = 1
                checked += len(rows)
            elif sc["out"] == "xyzdir":
                paths = [os.path.join(d, f"{str(k).zfill(10)}.xyz") for k in range(len(rows))]
                with lib_call("PtWriter.write_full_pt_in_directory"):
                    w.write_full_pt_in_directory(paths, os.path.join(d, "structure.gro"))
                for k, pth in enumerate(paths):
                    # parsed by hand (last three numbers of every atom line): MDAnalysis writes an empty element
                    # column for virtual sites, which its own xyz reader then refuses
                    with open(pth) as f:
                        lines = f.read().splitlines()
                    pos = np.array([[float(x) for x in ln.split()[-3:]] for ln in lines[2:2 + int(lines[0])]])
                    judge(pos, k, 1e-3, f"single-frame file {os.path.basename(pth)}")
                probes["xyz_directory_roundtrip"] = 1
                checked += len(rows)
            log.add("ptwriter", sc["out"], len(rows), digest_array(np.asarray(exp[-1])))
        sig = ["ptwriter", sc["out"], sc["mol1"].get("kind", sc["mol1"].get("file")),
               sc["mol2"].get("kind", sc["mol2"].get("file")), min(len(rows), 8)]
        return {"events": log.n + checked, "fingerprint": log.digest(), "faults": faults, "probes": probes,
                "sig": repr(sig), "nontrivial": checked >= 2 and (sc["out"] != "memory" or bool(sc.get("structure_first"))),
                "inter": repr(sig[:2])}

    @staticmethod
    def _leave_stale_outputs(sc, d, n_rows, n_atoms, gpath):
        """Files of an earlier run on the output paths: written after the grid file unless `older_than_grid`."""
        import random as _random
        st = sc["stale"]
        r = _random.Random(st["seed"])
        written = []
        if sc["out"] == "xyzdir":
            for k in range(n_rows):
                if r.random() > st["frac"]:
                    continue
                na = n_atoms if r.random() < 0.5 else max(1, n_atoms + r.choice([-1, 1, 3]))
                lines = [str(na), "frame of an earlier run"]
                lines += ["C %.5f %.5f %.5f" % (r.uniform(-9, 9), r.uniform(-9, 9), r.uniform(-9, 9)) for _ in range(na)]
                text = "\n".join(lines) + "\n"
                if st["kind"] == "torn":
                    text = text[: max(1, len(text) // 2)]
                pth = os.path.join(d, f"{str(k).zfill(10)}.xyz")
                with open(pth, "w") as f:
                    f.write(text)
                written.append(pth)
        else:
            for name in ("trajectory.xtc", "structure.gro"):
                if r.random() <= st["frac"]:
                    pth = os.path.join(d, name)
                    with open(pth, "wb") as f:
                        f.write(bytes(r.randrange(256) for _ in range(r.choice([0, 17, 400]))))
                    written.append(pth)
        g = os.stat(gpath).st_mtime
        for pth in written:
            t = g - 3600.0 if st["kind"] == "older_than_grid" else g + 5.0
            os.utime(pth, (t, t))

    def execute(self, sc):
        if sc.get("kind") == "ptwriter":
            return self._exec_ptwriter(sc)
        from molgri.io import OneMoleculeReader
        from molgri.molecules.pts import Pseudotrajectory
        log = EventLog()
        faults, probes = {}, {}
        frames_checked = 0
        schedule = []
        with World(rng_init=sc.get("rng_init", 0xC0FFEE)) as world:
            d = world.make_scratch()
            with lib_call("OneMoleculeReader(molecule 1)"):
                u1 = OneMoleculeReader(molecule_path(sc["mol1"], d, "m1")).get_molecule()
            with lib_call("OneMoleculeReader(molecule 2)"):
                u2 = OneMoleculeReader(molecule_path(sc["mol2"], d, "m2")).get_molecule()
            if sc["mol1"].get("same_object"):
                u1 = u2
                probes["same_universe_as_both_molecules"] = 1
            ref1 = np.array(u1.atoms.positions, dtype=float)
            ref2 = np.array(u2.atoms.positions, dtype=float)
            m1 = np.array(u1.atoms.masses, dtype=float)
            m2 = np.array(u2.atoms.masses, dtype=float)
            if np.linalg.norm(com(ref1, m1)) > 1e-4 or np.linalg.norm(com(ref2, m2)) > 1e-4:
                raise Violation("reader-centring", f"molecule read through the reader is not centred at its centre of "
                                                   f"mass: |com1|={np.linalg.norm(com(ref1, m1)):.3g}, "
                                                   f"|com2|={np.linalg.norm(com(ref2, m2)):.3g}")
            names = list(u1.atoms.names) + list(u2.atoms.names)
            types = list(u1.atoms.types) + list(u2.atoms.types)
            n1, n2 = len(ref1), len(ref2)
            arrays = []
            for t in sc["tasks"]:
                if "grid" in t:
                    from molgri.space.fullgrid import FullGrid
                    with lib_call(f"FullGrid({t['grid']})"):
                        g = FullGrid(t["grid"]["b"], t["grid"]["o"], t["grid"]["t"])
                        arrays.append(np.array(g.get_full_grid_as_array(), dtype=float))
                else:
                    arrays.append(np.array(t["rows"], dtype=float).reshape(-1, 7))

            def expected(ti, k):
                row = arrays[ti][k]
                return np.vstack([ref1, place(ref2, m2, row[3:], row[:3])])

            def check_frame(ti, k, pos, nm, ty, what):
                nonlocal frames_checked
                exp = expected(ti, k)
                pos = np.asarray(pos, dtype=float)
                if pos.shape != exp.shape:
                    raise Violation("frame-shape", f"{what}: {pos.shape[0]} atoms, expected {exp.shape[0]}")
                dev = np.abs(pos - exp)
                tol = 1e-4 * max(1.0, np.abs(exp).max() / 100.0)
                if dev[:n1].max(initial=0) > tol:
                    raise Violation("first-molecule-moved", f"{what}: molecule 1 deviates by {dev[:n1].max():.3g} A")
                if dev[n1:].max(initial=0) > tol:
                    a = int(np.argmax(dev[n1:].max(axis=1)))
                    raise Violation("frame-placement", f"{what}: atom {a} of molecule 2 is at {pos[n1 + a]} but the "
                                                       f"rigid placement of grid row {k} {arrays[ti][k].tolist()} puts "
                                                       f"it at {exp[n1 + a]} (deviation {dev[n1:].max():.3g} A)")
                if nm is not None and (list(nm) != names or list(ty) != types):
                    raise Violation("atom-order", f"{what}: atom names/types {list(nm)}/{list(ty)} are not those of "
                                                  f"molecule 1 followed by molecule 2")
                frames_checked += 1

            def new_task(ti):
                with lib_call(f"Pseudotrajectory(task {ti})"):
                    pt = Pseudotrajectory(u1, u2, arrays[ti], dimensions=sc.get("dimensions"))
                return {"pt": pt, "gen": None, "next": 0, "done": False, "drained": False}

            tasks = [new_task(i) for i in range(len(arrays))]
            held = []

            def step(ti):
                st = tasks[ti]
                if st["done"] or st["drained"]:
                    return
                if st["gen"] is None:
                    st["gen"] = st["pt"].generate_pseudotrajectory()
                try:
                    with lib_call(f"task {ti}: next() for frame {st['next']}", allowed=(StopIteration,)):
                        idx, uni = next(st["gen"])
                except StopIteration:
                    if st["next"] != len(arrays[ti]):
                        raise Violation("frame-count", f"task {ti}: generator stopped after {st['next']} frames for "
                                                       f"{len(arrays[ti])} grid rows")
                    st["done"] = True
                    return
                if st["next"] >= len(arrays[ti]):
                    raise Violation("frame-count", f"task {ti}: more frames than the {len(arrays[ti])} grid rows")
                if idx != st["next"]:
                    raise Violation("frame-index", f"task {ti}: generator yielded index {idx}, expected {st['next']}")
                check_frame(ti, st["next"], uni.atoms.positions, uni.atoms.names, uni.atoms.types,
                            f"task {ti} frame {st['next']}")
                if len(held) < 8 and (st["next"] % 3 == 0):
                    held.append((ti, st["next"], uni))  # a consumer that keeps the frames it was given
                log.add(f"pt{ti}", "frame", st["next"], digest_array(np.asarray(uni.atoms.positions)))
                st["next"] += 1

            last_task = None
            for op in sc["ops"]:
                if op["op"] == "fault":
                    RngSeam.apply(op["fault"])
                    faults[op["fault"]["kind"]] = faults.get(op["fault"]["kind"], 0) + 1
                    schedule.append("f")
                    continue
                ti = op["task"]
                if ti >= len(tasks):
                    continue
                st = tasks[ti]
                if last_task is not None and last_task != ti:
                    probes["task_switch"] = probes.get("task_switch", 0) + 1
                last_task = ti
                schedule.append((op["op"], ti))
                if op["op"] == "step":
                    step(ti)
                elif op["op"] == "step_burst":
                    for _ in range(op["n"]):
                        step(ti)
                elif op["op"] == "cancel":
                    if st["gen"] is not None and not st["done"]:
                        st["gen"].close()
                        faults["cancel_generator"] = faults.get("cancel_generator", 0) + 1
                        if 0 < st["next"] < len(arrays[ti]):
                            probes["cancelled_mid_way"] = probes.get("cancelled_mid_way", 0) + 1
                    tasks[ti] = new_task(ti)
                elif op["op"] in ("drain", "one_molecule"):
                    if st["gen"] is not None and not st["drained"]:
                        # the object's generator is in use: the documented contract is one generator per object
                        tasks[ti] = st = new_task(ti)
                    if len(arrays[ti]) == 0:
                        continue
                    if op["op"] == "drain":
                        with lib_call(f"task {ti}: get_pt_as_universe()"):
                            uni = st["pt"].get_pt_as_universe()
                        st["drained"] = True
                        nfr = len(uni.trajectory)
                        if nfr != len(arrays[ti]):
                            raise Violation("frame-count", f"task {ti}: universe has {nfr} frames for "
                                                           f"{len(arrays[ti])} grid rows")
                        r = random.Random(op["read_seed"])
                        order = list(range(nfr))
                        for _rep in range(2):
                            r.shuffle(order)
                            for k in order[: 25]:
                                with lib_call(f"task {ti}: trajectory[{k}]"):
                                    ts = uni.trajectory[k]
                                    pos = np.array(uni.atoms.positions)
                                    fr = ts.frame
                                if fr != k:
                                    raise Violation("frame-index", f"task {ti}: trajectory[{k}] reports frame {fr}")
                                check_frame(ti, k, pos, uni.atoms.names, uni.atoms.types,
                                            f"task {ti} drained frame {k}")
                        probes["drained_random_access"] = probes.get("drained_random_access", 0) + 1
                        log.add(f"pt{ti}", "drain", nfr)
                    else:
                        with lib_call(f"task {ti}: get_one_molecule_pt_as_universe(return_mol2={op['mol2']})"):
                            one = st["pt"].get_one_molecule_pt_as_universe(return_mol2=op["mol2"])
                        st["drained"] = True
                        if len(one.trajectory) != len(arrays[ti]):
                            raise Violation("frame-count", f"task {ti}: one-molecule universe has "
                                                           f"{len(one.trajectory)} frames for {len(arrays[ti])} rows")
                        sl = slice(n1, None) if op["mol2"] else slice(0, n1)
                        exp_names = names[sl]
                        if list(one.atoms.names) != exp_names:
                            raise Violation("atom-order", f"task {ti}: one-molecule view has atoms "
                                                          f"{list(one.atoms.names)}, expected {exp_names}")
                        for k in range(min(len(arrays[ti]), 20)):
                            with lib_call(f"task {ti}: one-molecule trajectory[{k}]"):
                                one.trajectory[k]
                                pos = np.array(one.atoms.positions, dtype=float)
                            exp = expected(ti, k)[sl]
                            tol = 1e-4 * max(1.0, np.abs(exp).max() / 100.0)
                            if pos.shape != exp.shape or np.abs(pos - exp).max(initial=0) > tol:
                                raise Violation("one-molecule-view", f"task {ti}: one-molecule frame {k} deviates from "
                                                                     f"the rigid placement")
                            frames_checked += 1
                        probes["one_molecule_view"] = probes.get("one_molecule_view", 0) + 1
            # finally run every stepped task to its end: frame count and the tail of the trajectory
            for ti, st in enumerate(tasks):
                guard = 0
                while st["gen"] is not None and not st["done"] and not st["drained"] and guard < 400:
                    step(ti)
                    guard += 1
            # frames handed out earlier are still those frames (collecting list(generator) is ordinary use)
            for ti, k, uni in held:
                check_frame(ti, k, uni.atoms.positions, None, None, f"task {ti} frame {k} looked at again later")
            if held:
                probes["kept_frames_rechecked"] = len(held)
            # sources untouched by the library?  (the tasks above shared them)
            if np.abs(np.array(u2.atoms.positions, dtype=float) - ref2).max(initial=0) > 1e-4 or \
                    np.abs(np.array(u1.atoms.positions, dtype=float) - ref1).max(initial=0) > 1e-4:
                probes["source_universe_changed"] = 1
        kinds = (sc["mol1"].get("kind", sc["mol1"].get("file")), sc["mol2"].get("kind", sc["mol2"].get("file")))
        sig = [kinds, [min(len(a), 8) for a in arrays], schedule]
        nontrivial = frames_checked >= 2 and (probes.get("task_switch", 0) >= 1 or sum(faults.values()) >= 1
                                               or probes.get("drained_random_access", 0) >= 1)
        return {"events": log.n, "fingerprint": log.digest(), "faults": faults, "probes": probes, "sig": repr(sig),
                "nontrivial": nontrivial, "inter": repr(schedule)}

    def shrink_candidates(self, sc):
        import copy
        for i, t in enumerate(sc["tasks"]):
            if "rows" in t and len(t["rows"]) > 1:
                for keep in (t["rows"][:1], t["rows"][: len(t["rows"]) // 2], t["rows"][1:]):
                    c = copy.deepcopy(sc)
                    c["tasks"][i] = {"rows": keep}
                    yield c
        for key in ("mol1", "mol2"):
            if sc[key]["source"] == "gen" and len(sc[key]["atoms"]) > 1:
                c = copy.deepcopy(sc)
                c[key]["atoms"] = c[key]["atoms"][:-1]
                yield c
        if len(sc["tasks"]) > 1:
            c = copy.deepcopy(sc)
            c["tasks"] = c["tasks"][:1]
            c["ops"] = [o for o in c["ops"] if o.get("task", 0) == 0]
            yield c


# ---------------------------------------------------------------------------------------------------------------------
#   C11
# ---------------------------------------------------------------------------------------------------------------------

class SimPool:
    """Stand-in for multiprocessing.Pool with the same observable contract for Pool.map: the callable is pickled and
    unpickled per chunk (state cannot leak between chunks or back to the parent), results are reassembled by
    position.  The plan (part of the scenario) fixes worker count, chunk size, the order in which chunks run and which
    chunks are delivered twice (at-least-once execution)."""

    def __init__(self, plan: dict, stats: dict):
        self.plan = plan
        self.stats = stats

    def __call__(self, processes=None, *a, **kw):
        self.stats["pool_created"] = self.stats.get("pool_created", 0) + 1
        return self

    def __enter__(self):
        return self

    def __exit__(self, *exc):
        return False

    def map(self, func, iterable, chunksize=None):
        items = list(iterable)
        if not items:
            return []
        w = self.plan.get("workers", 1)
        cs = self.plan.get("chunksize") or chunksize
        if not cs:
            cs, extra = divmod(len(items), w * 4)
            if extra:
                cs += 1
        chunks = [(i, items[i:i + cs]) for i in range(0, len(items), cs)]
        payload = pickle.dumps(func)
        order = list(range(len(chunks)))
        random.Random(self.plan.get("order_seed", 0)).shuffle(order)
        dup = set(self.plan.get("dup", []))
        results = [None] * len(items)
        for ci in order:
            start, chunk = chunks[ci]
            for delivery in range(2 if (ci % 7) in dup else 1):
                f = pickle.loads(payload)  # a worker sees its own copy, always
                res = [f(x) for x in chunk]
                if delivery:
                    self.stats["chunk_delivered_twice"] = self.stats.get("chunk_delivered_twice", 0) + 1
            for k, r in enumerate(res):
                results[start + k] = r
        self.stats["chunks"] = self.stats.get("chunks", 0) + len(chunks)
        if order != sorted(order):
            self.stats["chunks_out_of_order"] = self.stats.get("chunks_out_of_order", 0) + 1
        return results

    # The rest of the multiprocessing.Pool surface, so that a refactoring to another (legitimate) pool call does not
    # trip the harness; completion order is the simulator's decision wherever the real pool leaves it open.
    def starmap(self, func, iterable, chunksize=None):
        return self.map(_StarCall(func), list(iterable), chunksize)

    def imap(self, func, iterable, chunksize=1):
        return iter(self.map(func, iterable, chunksize))  # ordered, like the real imap

    def imap_unordered(self, func, iterable, chunksize=1):
        res = self.map(func, iterable, chunksize)
        order = list(range(len(res)))
        random.Random(self.plan.get("order_seed", 0) + 1).shuffle(order)  # any completion order is legal
        self.stats["unordered_results_shuffled"] = self.stats.get("unordered_results_shuffled", 0) + 1
        return iter([res[i] for i in order])

    def apply(self, func, args=(), kwds=None):
        return pickle.loads(pickle.dumps(func))(*args, **(kwds or {}))

    def apply_async(self, func, args=(), kwds=None, callback=None, error_callback=None):
        return _Ready(self.apply(func, args, kwds), callback)

    def map_async(self, func, iterable, chunksize=None, callback=None, error_callback=None):
        return _Ready(self.map(func, iterable, chunksize), callback)

    def starmap_async(self, func, iterable, chunksize=None, callback=None, error_callback=None):
        return _Ready(self.starmap(func, iterable, chunksize), callback)

    def close(self):
        pass

    def join(self):
        pass

    def terminate(self):
        pass


class _StarCall:
    def __init__(self, func):
        self.func = func

    def __call__(self, args):
        return self.func(*args)


class _Ready:
    """AsyncResult of a call that has already run inside the simulator."""

    def __init__(self, value, callback=None):
        self._value = value
        if callback is not None:
            callback(value)

    def get(self, timeout=None):
        return self._value

    def wait(self, timeout=None):
        return None

    def ready(self):
        return True

    def successful(self):
        return True


class AssignmentCheck(Check):
    prop = "C11"
    engine = "walker"
    rule = ("one run = one trajectory of a simulated rigid-body walker (seeded random walk on SE(3), i.i.d. placements, "
            "grid-centre frames, excursions beyond the outer shell; optionally a constant shift of the whole system, a "
            "periodic box on the trajectory, the cursor left on a later frame; 1-400 frames, rarely 10050-12000; grids "
            "also with generated, almost regular radial lists) of "
            "a second molecule with three distinct principal moments (water or generated, planar included) around a "
            "first molecule, assigned with AssignmentTool on a real FullGrid array through SimPool (seeded worker "
            "count, chunk size, chunk order, duplicated chunk delivery); or one back-assignment of the library's own "
            "pseudotrajectory; in 30% of the runs an analysis on a neighbouring grid (same rotation/direction grids, same "
            "innermost and outermost radius, interior radii elsewhere) was done earlier in the same process. Every frame "
            "outside the boundary margin (1e-3 A / 2e-3 rad) must get index "
            "(t*n_o+o)*n_b+b of the geometric reference model, NaN beyond the outer bound. Non-trivial: >=20 frames "
            "judged and a pool schedule with >=2 chunks. Distinct = distinct hash of (grid sizes, molecule kind, walk "
            "mode, pool plan).")
    components = {"real": ["molgri.molecules.transitions.AssignmentTool", "molgri.space.fullgrid.FullGrid, "
                           "from_full_array_to_o_b_t", "molgri.molecules.pts.Pseudotrajectory (back-assignment)",
                           "MDAnalysis (principal axes, AnalysisFromFunction, MemoryReader), pickle"],
                  "stub": ["multiprocessing.Pool -> SimPool (same pickling/chunking contract, seeded schedule)",
                           "the MD engine producing the trajectory -> simulated rigid-body walker"]}
    assumptions = ["frames whose best and second-best candidate differ by < 1e-3 A / 2e-3 rad are excluded (answer "
                   "not unique)", "second molecules: three distinct principal moments (gaps >= 8 %), no atom "
                   "ambiguously close to a principal plane", "worker death inside Pool.map is not injected (liveness "
                   "of multiprocessing, not claimed)", "in-memory trajectories (no lossy xtc)"]

    def budget(self, tier):
        if tier == "quick":
            return {"runs": 260, "chunk": 2, "wall": 170, "run_timeout": 200, "min_wall": 60}
        return {"runs": 6000, "chunk": 4, "wall": 1600, "run_timeout": 600, "min_wall": 240}

    def preload(self):
        import molgri.molecules.transitions  # noqa: F401
        import molgri.molecules.pts  # noqa: F401
        import molgri.io  # noqa: F401
        import molgri.space.fullgrid  # noqa: F401

    def generate(self, rng, tier):
        b = rng.choice(["4", "5", "8", "9", "cube4D_12", "randomQ_7", "cube4D_17", "randomQ_10", "20", "1",
                        "33", "40", "randomQ_50"])
        o = rng.choice(["1", "4", "7", "12", "ico_9", "cube3D_14", "randomS_11", "20", "26", "2"])
        t = rng.choice(["[0.2, 0.3, 0.4]", "[0.15, 0.3]", "linspace(0.2, 0.6, 4)", "[0.2, 0.25, 0.5]"])
        radii_nm = None
        if rng.random() < 0.35:
            # generated radial grids: 2-6 radii; often "almost regular" - end points of an equally spaced grid with
            # the interior radii moved - so that shortcuts for regular grids are probed at their boundary
            nt = rng.randint(2, 6)
            r0, step = rng.choice([0.15, 0.2, 0.3]), rng.choice([0.08, 0.1, 0.15])
            radii_nm = [round(r0 + i * step, 4) for i in range(nt)]
            if nt >= 3 and rng.random() < 0.7:
                for i in range(rng.choice([1, 2]) if nt > 3 else 1, nt - 1):
                    radii_nm[i] = round(radii_nm[i] + rng.choice([-0.3, -0.2, 0.2, 0.3]) * step, 4)
                radii_nm = sorted(set(radii_nm))
            t = "[" + ", ".join(repr(x) for x in radii_nm) + "]"
        r = rng.random()
        if r < 0.25:
            mol2 = {"source": "repo", "file": rng.choice(["H2O.gro", "H2O.xyz"])}
        elif r < 0.45:
            kind = rng.choice(["c2v_planar", "c2"])
            mol2 = {"source": "gen", "fmt": rng.choice(["gro", "xyz", "pdb"]), "kind": kind,
                    "atoms": gen_symmetric_molecule(rng, kind)}
        else:
            planar = rng.random() < 0.3
            mol2 = {"source": "gen", "fmt": rng.choice(["gro", "xyz", "pdb"]),
                    "kind": "planar" if planar else "generic", "atoms": gen_asymmetric_molecule(rng, planar)}
        if mol2["source"] == "gen" and rng.random() < 0.25:
            # the reference structure is handed over as it sits in its file, away from the origin
            off = [round(rng.uniform(-15, 15), 3) for _ in range(3)]
            mol2["atoms"] = [(a[0], round(a[1] + off[0], 3), round(a[2] + off[1], 3), round(a[3] + off[2], 3))
                             for a in mol2["atoms"]]
            mol2["center_com"] = False
        mol1 = rng.choice([{"source": "repo", "file": rng.choice(["H2O.gro", "NA.gro", "CL.gro", "glucose.xyz"])},
                           {"source": "gen", "fmt": "xyz", "kind": "generic", "atoms": gen_molecule(rng, "generic", 4)}])
        pool = {"workers": rng.choice([1, 1, 2, 3, 4]), "chunksize": rng.choice([None, None, 1, 3, 17, 50]),
                "order_seed": rng.randrange(2 ** 31), "dup": rng.sample(range(7), rng.choice([0, 0, 1, 3])),
                # where the caller left the trajectory cursor before handing the universe to the tool
                "cursor_at": rng.choice([None, None, 1, 2, 7, 10 ** 6])}
        common = {"grid": {"b": b, "o": o, "t": t}, "mol1": mol1, "mol2": mol2, "pool": pool,
                  "include_outliers": rng.random() < 0.25, "cartesian_flag": rng.random() < 0.5,
                  "box": rng.choice([None, None, 8.0, 10.0, 30.0, 100.0]), "rng_init": rng.randrange(2 ** 32)}
        radii = [10 * x for x in radii_nm] if radii_nm else \
            {"[0.2, 0.3, 0.4]": [2, 3, 4], "[0.15, 0.3]": [1.5, 3], "linspace(0.2, 0.6, 4)": [2, 10 / 3, 14 / 3, 6],
             "[0.2, 0.25, 0.5]": [2, 2.5, 5]}[t]

        def earlier_analysis():
            """Another grid analysed earlier in the same process: same rotation and direction grids, same number of
            shells, same innermost and outermost radius, interior radii elsewhere (or, with two shells, another outer
            radius)."""
            if rng.random() >= 0.3:
                return None
            nm = [x / 10 for x in radii]
            if len(nm) >= 3:
                var = [nm[0]] + [round(nm[i] + rng.choice([-0.35, -0.2, 0.2, 0.35]) * min(nm[i] - nm[i - 1], nm[i + 1] - nm[i]), 5)
                                 for i in range(1, len(nm) - 1)] + [nm[-1]]
            else:
                var = [nm[0], round(nm[-1] * rng.choice([0.8, 1.3]), 5)]
            return {"b": b, "o": o, "t": "[" + ", ".join(repr(round(x, 5)) for x in var) + "]",
                    "frames": rng.randint(2, 6), "seed": rng.randrange(2 ** 32)}

        if rng.random() < 0.15:
            via_files = rng.random() < 0.5
            if via_files and mol2.get("kind") in ("planar", "c2v_planar", "c2"):
                # xtc keeps 0.01 A: atoms that sit on a principal plane or axis do not any more in the file
                via_files = False
            return {"kind": "backassign", **common, "via_files": via_files, "ops": [], "earlier": earlier_analysis()}
        rmax = radii[-1] + (radii[-1] - radii[-2]) / 2
        mode = rng.choice(["walk", "walk", "iid", "mixed"])
        n = rng.choice([20, 60, 150, rng.randint(20, 400 if tier == "quick" else 600), rng.choice([1, 2, 3, 5])])
        if rng.random() < 0.006:
            n = rng.randint(10050, 12000)  # production length: block-wise / chunked code paths only show here
            mode = "iid"
        frames = []
        q = random_unit_quaternion(rng)
        p = [rng.uniform(-1, 1) * radii[0] for _ in range(3)]
        for k in range(n):
            if mode == "iid" or (mode == "mixed" and rng.random() < 0.5) or k == 0:
                q = random_unit_quaternion(rng)
                d = random_unit_quaternion(rng)[:3]
                nn = sum(a * a for a in d) ** 0.5 or 1.0
                r = rng.uniform(0.3, rmax * (1.25 if rng.random() < 0.15 else 0.98))
                p = [a / nn * r for a in d]
            else:
                # random-walk step: small rotation composed with the current one, small displacement
                dq = [rng.gauss(0, 0.12) for _ in range(3)] + [1.0]
                q = _qmul(_unit(dq), q)
                p = [a + rng.gauss(0, 0.35) for a in p]
                r = sum(a * a for a in p) ** 0.5
                if r > rmax * 1.3:
                    p = [a * rmax / r for a in p]
                if r < 0.2:
                    p = [a + 0.3 for a in p]
            frames.append([*p, *q])
        shift = [0.0, 0.0, 0.0] if rng.random() < 0.8 else [rng.uniform(-5, 5) for _ in range(3)]
        stop = None if rng.random() < 0.8 else rng.choice([1, n // 2 or 1, n - 1 or 1, n, n, rng.randint(1, n)])
        return {"kind": "walk", **common, "mode": mode, "shift": shift, "stop": stop,
                "ask_twice": rng.random() < 0.12, "ops": frames, "earlier": earlier_analysis()}

    def execute(self, sc):
        import molgri.molecules.transitions as tr
        from molgri.io import OneMoleculeReader
        from molgri.space.fullgrid import FullGrid
        from MDAnalysis import Merge, Universe
        from MDAnalysis.coordinates.memory import MemoryReader
        log = EventLog()
        faults, probes = {}, {}
        stats = {}
        with World(rng_init=sc.get("rng_init", 0xC0FFEE)) as world:
            d = world.make_scratch()
            pool = SimPool(sc["pool"], stats)
            import multiprocessing
            import multiprocessing.pool
            # the seam is the name `Pool` wherever the tree under test takes it from
            seam_found = world.patch(tr, "Pool", pool)
            world.patch(multiprocessing, "Pool", pool)
            if not seam_found:
                probes["pool_seam_moved"] = 1
            with lib_call("FullGrid"):
                fg = FullGrid(sc["grid"]["b"], sc["grid"]["o"], sc["grid"]["t"])
                full_array = np.array(fg.get_full_grid_as_array(), dtype=float)
                n_b, n_o, n_t = fg.get_b_N(), fg.get_o_N(), fg.get_t_N()
                b_arr = np.array(fg.b_rotations.get_grid_as_array(only_upper=True), dtype=float)
                o_arr = np.array(fg.get_position_grid().get_o_grid().get_grid_as_array(only_upper=False), dtype=float)
                t_arr = np.array(fg.get_position_grid().get_radii(), dtype=float)
            with lib_call("OneMoleculeReader"):
                u1 = OneMoleculeReader(molecule_path(sc["mol1"], d, "m1")).get_molecule()
                if sc["mol2"].get("center_com") is False and sc["kind"] != "backassign":
                    u2 = OneMoleculeReader(molecule_path(sc["mol2"], d, "m2"), center_com=False).get_molecule()
                    probes["reference_not_centred"] = 1
                else:
                    u2 = OneMoleculeReader(molecule_path(sc["mol2"], d, "m2")).get_molecule()
            ref1 = np.array(u1.atoms.positions, dtype=float)
            ref2 = np.array(u2.atoms.positions, dtype=float)
            m2 = np.array(u2.atoms.masses, dtype=float)
            if sc["kind"] == "backassign":
                from molgri.molecules.pts import Pseudotrajectory
                if sc.get("via_files"):
                    # rule run_pt then assignment in a later stage: grid file -> PtWriter -> .gro/.xtc -> Universe
                    import MDAnalysis as mda
                    from molgri.io import PtWriter
                    gpath = os.path.join(d, "full_array.npy")
                    np.save(gpath, full_array)
                    with lib_call("PtWriter(...).write_full_pt"):
                        PtWriter(molecule_path(sc["mol1"], d, "m1"), molecule_path(sc["mol2"], d, "m2"), 60.0,
                                 gpath).write_full_pt(os.path.join(d, "t.xtc"), os.path.join(d, "s.gro"))
                    traj = mda.Universe(os.path.join(d, "s.gro"), os.path.join(d, "t.xtc"))
                    probes["back_assignment_through_xtc_files"] = 1
                else:
                    with lib_call("Pseudotrajectory(grid).get_pt_as_universe"):
                        traj = Pseudotrajectory(u1, u2, full_array).get_pt_as_universe()
                frames = full_array
                shift = np.zeros(3)
                stop = None
            else:
                frames = np.array(sc["ops"], dtype=float).reshape(-1, 7)
                if len(frames) == 0:
                    return {"events": 0, "fingerprint": "empty", "faults": {}, "probes": {}, "sig": None,
                            "nontrivial": False}
                shift = np.array(sc["shift"], dtype=float)
                coords = np.array([np.vstack([ref1, place_com(ref2, m2, f[3:], f[:3])]) + shift for f in frames],
                                  dtype=np.float32)
                merged = Merge(u1.atoms, u2.atoms)
                if sc.get("box"):
                    # real MD trajectories carry a periodic box; the property is about the placement, not the box
                    L = float(sc["box"])
                    traj = Universe(merged._topology, coords, format=MemoryReader,
                                    dimensions=np.array([L, L, L, 90.0, 90.0, 90.0], dtype=np.float32))
                    probes["trajectory_with_box"] = 1
                else:
                    traj = Universe(merged._topology, coords, format=MemoryReader)
                stop = sc.get("stop")
                if np.any(shift != 0):
                    probes["whole_system_shifted"] = 1
            if sc.get("earlier"):
                # an analysis on another grid done earlier in this process (its answers are not judged here)
                import random as _random
                ea = sc["earlier"]
                er = _random.Random(ea["seed"])
                try:
                    with quiet():
                        efg = FullGrid(ea["b"], ea["o"], ea["t"])
                        earr = np.array(efg.get_full_grid_as_array(), dtype=float)
                        rows_e = earr[[er.randrange(len(earr)) for _ in range(ea["frames"])]]
                        ecoords = np.array([np.vstack([ref1, place_com(ref2, m2, f[3:], f[:3])]) for f in rows_e],
                                           dtype=np.float32)
                        etraj = Universe(Merge(u1.atoms, u2.atoms)._topology, ecoords, format=MemoryReader)
                        tr.AssignmentTool(earr, etraj, u2).get_full_assignments()
                    faults["earlier_analysis_on_another_grid"] = 1
                except Exception:  # noqa: BLE001
                    probes["earlier_analysis_failed"] = 1
            if sc["kind"] == "walk" and len(frames) > 1 and sc["pool"].get("cursor_at"):
                traj.trajectory[min(sc["pool"]["cursor_at"], len(frames) - 1)]
                probes["cursor_left_on_later_frame"] = 1
            with lib_call("AssignmentTool(...).get_full_assignments()"):
                at = tr.AssignmentTool(full_array, traj, u2, stop=stop, include_outliers=sc["include_outliers"],
                                       cartesian_grid=sc["cartesian_flag"])
                got = np.asarray(at.get_full_assignments(), dtype=float)
                if sc.get("ask_twice"):
                    again = np.asarray(at.get_full_assignments(), dtype=float)
            if sc.get("ask_twice"):
                probes["asked_twice"] = 1
                if again.shape != got.shape or not np.array_equal(np.nan_to_num(again, nan=-1.0),
                                                                  np.nan_to_num(got, nan=-1.0)):
                    raise Violation("assignment", "a second get_full_assignments() on the same tool gives another "
                                                  "answer than the first")
            n_expected = len(frames) if stop is None else min(stop, len(frames))
            if got.ndim != 1:
                raise Violation("assignment-length", f"assignments have shape {got.shape}")
            if n_expected == len(frames) and len(got) != len(frames):
                # every frame of the trajectory was to be analysed
                raise Violation("assignment-length", f"{len(got)} assignments for {len(frames)} frames")
            # with an explicit smaller `stop` the statement does not say how long the answer is: judge what is returned
            n_expected = min(n_expected, len(got))
            # ---- reference model
            outer = t_arr[-1] + (t_arr[-1] - t_arr[-2]) / 2
            judged = excluded = 0
            worst = None
            for k in range(n_expected):
                p, q = frames[k, :3], frames[k, 3:]
                r = float(np.linalg.norm(p))
                dr = np.abs(t_arr - r)
                ti = int(np.argmin(dr))
                sr = np.sort(dr)
                margin_t = (sr[1] - sr[0]) / 2 if len(sr) > 1 else np.inf
                margin_out = abs(r - outer)
                if r < 1e-6:
                    excluded += 1
                    continue
                ang = np.arccos(np.clip(o_arr @ (p / r), -1, 1))
                oi = int(np.argmin(ang))
                sa = np.sort(ang)
                margin_o = (sa[1] - sa[0]) if len(sa) > 1 else np.inf
                qn = q / np.linalg.norm(q)
                rot = 2 * np.arccos(np.clip(np.abs(b_arr @ qn), 0, 1))
                bi = int(np.argmin(rot))
                sb = np.sort(rot)
                margin_b = (sb[1] - sb[0]) if len(sb) > 1 else np.inf
                is_out = r > outer and not sc["include_outliers"]
                if margin_out < 1e-3 and not sc["include_outliers"]:
                    excluded += 1
                    continue
                if not is_out and (margin_t < 1e-3 or margin_o * max(r, 1.0) < 2e-3 or margin_b < 2e-3):
                    excluded += 1
                    continue
                judged += 1
                exp = np.nan if is_out else float((ti * n_o + oi) * n_b + bi)
                g = got[k]
                ok = (np.isnan(exp) and np.isnan(g)) or (not np.isnan(exp) and g == exp)
                if not ok and worst is None:
                    if np.isnan(exp) or np.isnan(g):
                        part = "outlier rule"
                    else:
                        gi = int(g)
                        part = ",".join(nm for nm, a, b_ in (("shell", gi // (n_o * n_b), ti),
                                                            ("direction", (gi // n_b) % n_o, oi),
                                                            ("rotation", gi % n_b, bi)) if a != b_)
                    worst = (k, g, exp, part, (margin_t, margin_o, margin_b))
            if worst is not None:
                k, g, exp, part, mg = worst
                raise Violation("assignment", f"frame {k} (|p|={np.linalg.norm(frames[k, :3]):.4f} A) assigned to {g}, "
                                              f"the geometric cell is {exp} [{part}; margins t={mg[0]:.3g} A, "
                                              f"o={mg[1]:.3g} rad, b={mg[2]:.3g} rad; n_b={n_b}, n_o={n_o}, n_t={n_t}]")
            if sc["kind"] == "backassign":
                if not np.array_equal(got, np.arange(len(full_array), dtype=float)):
                    bad = int(np.argwhere(got != np.arange(len(full_array)))[0][0])
                    raise Violation("back-assignment", f"pseudotrajectory frame {bad} generated from the grid is assigned "
                                                       f"to {got[bad]} (n_b={n_b}, n_o={n_o}, n_t={n_t})")
                probes["back_assignment"] = 1
            for kname in ("chunk_delivered_twice", "chunks_out_of_order"):
                if stats.get(kname):
                    faults[kname] = stats[kname]
            if sc["pool"].get("workers", 1) > 1:
                faults["pool_workers_gt_1"] = 1
            probes["frames_judged"] = judged
            probes["frames_excluded_near_boundary"] = excluded
            if np.any(np.isnan(got)):
                probes["outlier_frames_nan"] = int(np.isnan(got).sum())
            log.add("tool", "assign", [n_b, n_o, n_t, len(frames)], digest_array(np.nan_to_num(got, nan=-1.0)))
        sig = [sc["kind"], n_b, n_o, n_t, sc["mol2"].get("kind", sc["mol2"].get("file")), sc.get("mode"),
               sc["pool"].get("workers"), sc["pool"].get("chunksize"), len(sc["pool"].get("dup", [])),
               sc["include_outliers"], min(len(frames) // 50, 8)]
        return {"events": log.n + judged, "fingerprint": log.digest(), "faults": faults, "probes": probes,
                "sig": repr(sig), "nontrivial": judged >= 20 and stats.get("chunks", 0) >= 2,
                "inter": repr([sc["pool"].get("workers"), sc["pool"].get("chunksize"), sc["pool"].get("order_seed"),
                               sorted(sc["pool"].get("dup", []))])}

    def shrink_candidates(self, sc):
        import copy
        if sc["pool"] != {"workers": 1, "chunksize": None, "order_seed": 0, "dup": []}:
            c = copy.deepcopy(sc)
            c["pool"] = {"workers": 1, "chunksize": None, "order_seed": 0, "dup": []}
            yield c
        if sc.get("shift") and any(sc["shift"]):
            c = copy.deepcopy(sc)
            c["shift"] = [0.0, 0.0, 0.0]
            yield c
        if sc.get("stop") is not None:
            c = copy.deepcopy(sc)
            c["stop"] = None
            yield c


def _unit(q):
    n = sum(a * a for a in q) ** 0.5
    return [a / n for a in q]


def _qmul(a, b):
    """Hamilton product of scalar-last quaternions: rotation b followed by rotation a."""
    ax, ay, az, aw = a
    bx, by, bz, bw = b
    return _unit([aw * bx + ax * bw + ay * bz - az * by,
                  aw * by - ax * bz + ay * bw + az * bx,
                  aw * bz + ax * by - ay * bx + az * bw,
                  aw * bw - ax * bx - ay * by - az * bz])
