"""
Engine `pipeline` (properties C14 and C20): the workflow grid-writer -> energy producer -> SqRA -> decomposition as a
set of stage tasks whose only channel is a simulator-owned scratch directory.  The simulator decides which stage runs
when, warm (in the simulator's interpreter, inheriting all module state) or cold (fresh interpreter, own
PYTHONHASHSEED and initial RNG state), where a stage crashes, what the disk keeps of the file in flight (torn / lost
write), what an earlier user left in the directory (stale files), the state of numpy's global generator between
stages, and the entropy ARPACK draws its start vector from.

Snakemake itself is a stub: the stage drivers below make the same molgri calls, in the same order, on the same file
set as the `run:` bodies of workflow/run_grid, run_sqra (rules run_sqra, run_decomposition); the modelled contract is
"a stage starts only when its inputs are complete; a crashed stage is re-run from scratch".
"""
from __future__ import annotations

import json
import os
import random
import shutil

import numpy as np

from .core import (Check, EventLog, Violation, HarnessError, World, RngSeam, lib_call, quiet, digest_any,
                   digest_array, digest_sparse, derive_seed)
from .session import run_child

R_KJ = 8.31446261815324e-3  # kJ/(mol K)

GRID_FILES = {"full_grid": "full_array.npy", "volumes": "volumes.npy", "borders_array": "borders_array.npz",
              "distances_array": "distances_array.npz", "adjacency_array": "adjacency_array.npz"}
SAVE = {"full_grid": "save_full_grid", "volumes": "save_volumes", "borders_array": "save_borders_array",
        "distances_array": "save_distances_array", "adjacency_array": "save_adjacency_array"}
LOAD = {"full_grid": "load_full_grid", "volumes": "load_volumes", "borders_array": "load_borders_array",
        "distances_array": "load_distances_array", "adjacency_array": "load_adjacency_array"}
F12_OPEN_CELL_GRIDS = {"ico_4", "cube3D_4", "randomS_4", "randomS_5", "randomS_6", "randomS_7"}


class Crash(Exception):
    """The simulated process died at this step boundary."""


# ---------------------------------------------------------------------------------------------------------------------
#   stage drivers (executed warm in the simulator or cold through sim/child.py)
# ---------------------------------------------------------------------------------------------------------------------

def _writer(spec):
    from molgri.io import GridWriter
    return GridWriter(spec["b"], spec["o"], spec["t"], factor=spec["factor"],
                      position_grid_cartesian=spec["cartesian"])


def _in_memory_digests(gw, names) -> dict:
    fg = gw.fg
    get = {"full_grid": fg.get_full_grid_as_array, "volumes": lambda: np.asarray(fg.get_total_volumes()),
           "borders_array": fg.get_full_borders, "distances_array": fg.get_full_distances,
           "adjacency_array": fg.get_full_adjacency}
    return {n: digest_any(get[n]()) for n in names}


LOOKS = {"adj_pos": lambda fg: fg.get_full_adjacency(only_position=True),
         "adj_ori": lambda fg: fg.get_full_adjacency(only_orientation=True),
         "dist_pos": lambda fg: fg.get_full_distances(only_position=True),
         "dist_ori": lambda fg: fg.get_full_distances(only_orientation=True),
         "adjacency": lambda fg: fg.get_full_adjacency(), "borders": lambda fg: fg.get_full_borders(),
         "distances": lambda fg: fg.get_full_distances(), "volumes": lambda fg: fg.get_total_volumes(),
         "array": lambda fg: fg.get_full_grid_as_array(),
         "pos_volumes": lambda fg: fg.get_position_grid().get_all_position_volumes(),
         "pos_adjacency": lambda fg: fg.get_position_grid().get_adjacency_of_position_grid()}


def stage_W(d: str, spec: dict, order: list, crash_after=None, disk_fault=None, want_digests: bool = False,
            looks: list = None) -> dict:
    """rule run_grid: build the grid and save the files, one step per save.  `looks`: getter calls the user of the
    writer makes on its grid before saving (a notebook user inspecting the grid); their results are not judged."""
    gw = _writer(spec)
    for lk in looks or []:
        try:
            LOOKS[lk](gw.fg)
        except Exception:  # noqa: BLE001  (what such a call returns or raises is not C14's or C20's business)
            pass
    for i, name in enumerate(order):
        path = os.path.join(d, GRID_FILES[name])
        if crash_after == i:
            if disk_fault and disk_fault["kind"] == "torn_write":
                tmp = os.path.join(d, "inflight_" + GRID_FILES[name])
                getattr(gw, SAVE[name])(tmp)
                with open(tmp, "rb") as f:
                    blob = f.read()
                os.remove(tmp)
                with open(path, "wb") as f:
                    f.write(blob[: int(len(blob) * disk_fault["frac"])])
            elif disk_fault and disk_fault["kind"] == "lost_write" and i > 0:
                prev = os.path.join(d, GRID_FILES[order[i - 1]])
                if os.path.exists(prev):
                    os.remove(prev)
            raise Crash(f"W crashed before step {i} ({name})")
        getattr(gw, SAVE[name])(path)
    if crash_after is not None and crash_after >= len(order):
        raise Crash("W crashed after its last write, before completion was recorded")
    out = {}
    if want_digests:
        out["digests"] = _in_memory_digests(gw, order)
        # the writer "takes in strings and writes out a grid": the grid those strings name, built without the writer
        from molgri.space.fullgrid import FullGrid

        class _Direct:
            fg = FullGrid(spec["b"], spec["o"], spec["t"], factor=spec["factor"],
                          position_grid_cartesian=spec["cartesian"])
        out["direct_digests"] = _in_memory_digests(_Direct, order)
    return out


def reference_W(spec: dict, names: list) -> dict:
    """What an uninterrupted run of the same specification produces (in memory, fresh writer object)."""
    return _in_memory_digests(_writer(spec), names)


def load_digests(d: str, names: list, keep: list = None) -> dict:
    from molgri.io import GridReader
    gr = GridReader()
    out = {}
    for n in names:
        val = getattr(gr, LOAD[n])(os.path.join(d, GRID_FILES[n]))
        out[n] = digest_any(val)
        if keep is not None:
            keep.append((n, val, out[n]))  # the caller goes on holding what it loaded
    return out


# --- energy producer (fake GROMACS / ORCA peer) -----------------------------------------------------------------------

def energy_tokens(es: dict, n: int) -> list:
    """Rows of text tokens, deterministic in the spec.  Row k belongs to grid cell k."""
    rs = np.random.RandomState(es["seed"] % (2 ** 32))
    ncol = len(es["legends"])
    target = es["legends"].index(es["column"])
    rows = []
    for k in range(n):
        vals = rs.normal(0.0, 1.0, size=ncol + 1)
        uni = rs.uniform(-1.0, 1.0)
        row = ["%12.6f" % (0.0 if es.get("zero_time", True) else k * 0.002)]
        for c in range(ncol):
            if c == target and es.get("ramp"):
                # energy rising shell by shell (a funnel): neighbours differ by < 500 kJ/mol, the total span is large
                shell = (k // es["ramp"]["n_b"]) // es["ramp"]["n_o"]
                v = es["ramp"]["slope"] * shell + uni * 10.0
            elif c == target and es.get("half_range"):
                v = uni * es["half_range"]  # wide spread, all differences below the 500 kJ/mol cap
            else:
                v = vals[c + 1] * (es["sigma"] if c == target else 50.0) + (es.get("offset", 0.0) if c == target else 0.0)
            if c == target and es.get("whole_numbers"):
                row.append("%d" % int(round(v)))  # a column written without decimal points is read as integers
            else:
                row.append(_fmt_number(v, es["numfmt"]))
        if rows and es.get("dup_frac") and rs.random_sample() < es["dup_frac"]:
            # symmetry-equivalent frames of a rerun without time information: a data line equal to an earlier one
            row = list(rows[rs.randint(len(rows))])
        rows.append(row)
    return rows


def _fmt_number(v: float, style: str) -> str:
    if style == "gmx":
        return "%12.6f" % v
    if style == "gmx_e":
        return "%14.6e" % v
    if style == "repr":
        return repr(float(v))
    if style == "g17":
        return "%.17g" % v
    raise HarnessError(style)


def write_xvg(path: str, es: dict, rows: list):
    lines = []
    for i in range(es["n_hash"]):
        lines.append("# " + es.get("hash_text", "This file was created by the simulated gmx energy peer") + f" {i}\n")
    base = ['@    title "GROMACS Energies"\n', '@    xaxis  label "Time (ps)"\n', '@    yaxis  label "(kJ/mol)"\n',
            "@TYPE xy\n", "@ view 0.15, 0.15, 0.75, 0.85\n", "@ legend on\n", "@ legend box on\n",
            "@ legend loctype view\n", "@ legend 0.78, 0.8\n", "@ legend length 2\n"]
    min_at = max(0, 13 - es["n_hash"] - len(es["legends"]))
    n_at = max(min_at, es.get("n_at", 10))
    at = base[:n_at]
    while len(at) < n_at:
        at.append(f"@ world {len(at)}, 0, 1, 1\n")
    assert es["n_hash"] <= 13 and es["n_hash"] + len(at) + len(es["legends"]) >= 13
    lines += at
    for i, leg in enumerate(es["legends"]):
        lines.append(f'@ s{i} legend "{leg}"\n')
    for i in range(es.get("n_at_after", 0)):
        # xmgrace-style settings that some tools put behind the legend block
        lines.append([f"@ s{i % max(1, len(es['legends']))} linestyle 1\n", "@ autoscale onread none\n",
                      f"@ s{i % max(1, len(es['legends']))} line linewidth 2.0\n"][i % 3])
    style = es.get("line_style", "plain")
    for row in rows:
        toks = [t.strip() for t in row] if style != "plain" else row
        if style == "trailing_blank":
            lines.append(" ".join("%-14s" % t for t in toks) + "\n")      # left-aligned fixed-width fields
        elif style == "tabs":
            lines.append("\t".join(toks) + "\n")
        elif style == "wide_gaps":
            lines.append("   " + "      ".join(toks) + "\n")
        else:
            lines.append(" ".join(row) + "\n")
    with open(path, "w", encoding="utf-8") as f:
        f.writelines(lines)


def write_orca_csv(path: str, es: dict, rows: list):
    import pandas as pd
    target = es["legends"].index(es["column"])
    df = pd.DataFrame({"File": [f"trajectory/{str(i).zfill(10)}.out" for i in range(len(rows))],
                       "Functional": "PBE0", "Basis set": "def2-tzvp",
                       es["column"]: [int(r[target + 1]) if es.get("whole_numbers") else float(r[target + 1])
                                      for r in rows]})
    df.to_csv(path, index=False)


def stage_E(d: str, es: dict, crash=None) -> dict:
    """The external energy program: one row per frame of the pseudotrajectory, i.e. per grid row."""
    n = len(np.load(os.path.join(d, GRID_FILES["full_grid"])))
    rows = energy_tokens(es, n)
    path = os.path.join(d, "energy." + es["fmt"])
    if es["fmt"] == "xvg":
        write_xvg(path, es, rows)
    else:
        write_orca_csv(path, es, rows)
    if crash is not None:
        with open(path, "rb") as f:
            blob = f.read()
        if crash["kind"] == "torn_write":
            with open(path, "wb") as f:
                f.write(blob[: int(len(blob) * crash["frac"])])
        elif crash["kind"] == "lost_write":
            os.remove(path)
        raise Crash("E crashed while writing the energy file")
    return {"n": n}


def stage_S(d: str, p: dict, crash=None) -> dict:
    """rule run_sqra."""
    from molgri.io import EnergyReader, GridReader
    from molgri.molecules.transitions import SQRA
    from scipy import sparse
    gr = GridReader()
    all_volumes = gr.load_volumes(os.path.join(d, GRID_FILES["volumes"]))
    all_surfaces = gr.load_borders_array(os.path.join(d, GRID_FILES["borders_array"]))
    all_distances = gr.load_distances_array(os.path.join(d, GRID_FILES["distances_array"]))
    energies = EnergyReader(os.path.join(d, "energy." + p["energy_fmt"])).load_single_energy_column(p["energy_type"])
    sqra = SQRA(energies=energies, volumes=all_volumes, distances=all_distances, surfaces=all_surfaces)
    for T_scan, D_scan in p.get("scan", []):
        # a user scanning temperature / diffusion constant on the geometry that was loaded once
        sqra.get_rate_matrix(D_scan, T_scan)
    rate_matrix = sqra.get_rate_matrix(p["D"], p["T"])
    rate_matrix, index_list = sqra.cut_and_merge(rate_matrix, T=p["T"], lower_limit=None, upper_limit=None)
    out = os.path.join(d, "rate_matrix.npz")
    if crash is not None:
        if crash["kind"] == "torn_write":
            tmp = os.path.join(d, "inflight_rate_matrix.npz")
            sparse.save_npz(tmp, rate_matrix)
            with open(tmp, "rb") as f:
                blob = f.read()
            os.remove(tmp)
            with open(out, "wb") as f:
                f.write(blob[: int(len(blob) * crash["frac"])])
        raise Crash("S crashed before its outputs were complete")
    sparse.save_npz(out, rate_matrix)
    np.save(os.path.join(d, "index_list.npy"), np.array(index_list, dtype=object))
    return {}


def stage_D(d: str, s: dict, crash=None) -> dict:
    """rule run_decomposition, once per simulated entropy value (ARPACK start vector)."""
    from scipy import sparse
    import molgri.molecules.transitions as tr
    my_matrix = sparse.load_npz(os.path.join(d, "rate_matrix.npz"))
    real_eigs = getattr(tr, "eigs", None)  # the seam; a tree that no longer binds this name runs unseeded
    notes = {}
    sigma = effective_sigma(s, my_matrix)
    for i, seed in enumerate(s["seeds"]):
        if crash is not None and i == crash.get("at", 0):
            raise Crash("D crashed between two decompositions")

        def seeded_eigs(A, *a, _seed=seed, **kw):
            if "rng" not in kw and kw.get("v0") is None:
                kw["rng"] = np.random.default_rng(_seed)
            return real_eigs(A, *a, **kw)
        if real_eigs is not None:
            tr.eigs = seeded_eigs
        try:
            # one analysis object asked several times (a notebook session), or a new one per start vector
            if not (s.get("one_tool") and i > 0):
                dt = tr.DecompositionTool(my_matrix)
                if s.get("extra_call"):
                    try:
                        dt.get_decomposition(tol=s["tol"], maxiter=s["maxiter"], which=s["which"], sigma=sigma, k=s["k"])
                    except Exception:  # noqa: BLE001  (not judged: the recorded call below is)
                        pass
            try:
                ev, evec = dt.get_decomposition(tol=s["tol"], maxiter=s["maxiter"], which=s["which"],
                                                sigma=sigma, k=s["k"])
            except Exception as e:  # noqa: BLE001
                if type(e).__name__ in ("ArpackNoConvergence", "ArpackError"):
                    notes[str(i)] = type(e).__name__
                    continue
                raise
        finally:
            if real_eigs is not None:
                tr.eigs = real_eigs
        np.save(os.path.join(d, f"eigenvalues_{i}.npy"), np.array(ev))
        np.save(os.path.join(d, f"eigenvectors_{i}.npy"), np.array(evec))
    return {"notes": notes}


def effective_sigma(s: dict, matrix):
    """The user of the decomposition rule picks the shift either as an absolute number or knowing the scale of the
    rates (a fraction of the largest exit rate)."""
    if s.get("sigma_rel") is not None:
        return float(s["sigma_rel"] * np.abs(matrix.diagonal()).max())
    return s["sigma"]


STAGES = {"W": stage_W, "E": stage_E, "S": stage_S, "D": stage_D}


def child_stage(job: dict) -> dict:
    """Inside a cold interpreter: own initial RNG state, then the stage."""
    first = job.get("rng_init", [{"kind": "rng_reseed", "seed": 1}])
    for f in first:
        RngSeam.apply(f)
    what = job["stage"]
    try:
        with quiet():
            if what == "reference_W":
                return {"ok": True, "result": reference_W(**job["args"])}
            if what == "load_digests":
                return {"ok": True, "result": load_digests(**job["args"])}
            if what == "load_energy":
                return {"ok": True, "result": load_energy_observation(**job["args"])}
            res = STAGES[what](**job["args"])
        return {"ok": True, "result": res}
    except Crash as c:
        return {"ok": False, "crash": str(c)}
    except Exception as e:  # noqa: BLE001
        import traceback
        tb = traceback.extract_tb(e.__traceback__)
        where = ""
        for fr in reversed(tb):
            if "/molgri/" in fr.filename:
                where = f" at {os.path.basename(fr.filename)}:{fr.lineno}"
                break
        return {"ok": False, "exception": f"{type(e).__name__}: {e}{where}", "etype": type(e).__name__}


class StageFailed(Exception):
    def __init__(self, etype, text):
        super().__init__(text)
        self.etype = etype
        self.text = text


def run_stage(stage: str, args: dict, mode: str, hashseed: int = 0, rng_init=None):
    """Returns the stage result; raises Crash for a simulated crash and StageFailed for a real exception."""
    if mode == "cold":
        res = run_child({"mode": "stage", "stage": stage, "args": args,
                         "rng_init": rng_init or [{"kind": "rng_reseed", "seed": 1}]}, hashseed)
        if res.get("ok"):
            return res["result"]
        if "crash" in res:
            raise Crash(res["crash"])
        raise StageFailed(res.get("etype", "Exception"), res["exception"])
    try:
        with quiet():
            if stage == "reference_W":
                return reference_W(**args)
            if stage == "load_digests":
                return load_digests(**args)
            if stage == "load_energy":
                return load_energy_observation(**args)
            return STAGES[stage](**args)
    except Crash:
        raise
    except (HarnessError, Violation):
        raise
    except Exception as e:  # noqa: BLE001
        import traceback
        tb = traceback.extract_tb(e.__traceback__)
        where = ""
        for fr in reversed(tb):
            if "/molgri/" in fr.filename:
                where = f" at {os.path.basename(fr.filename)}:{fr.lineno}"
                break
        raise StageFailed(type(e).__name__, f"{type(e).__name__}: {e}{where}") from e


# ---------------------------------------------------------------------------------------------------------------------
#   generation helpers shared by C14 and C20
# ---------------------------------------------------------------------------------------------------------------------

LONG_RADIAL_FORMS = ["linspace(0.1, 1.0, 10)", "arange(0.1, 0.85, 0.05)", "[0.1, 0.15, 0.2, 0.3, 0.35, 0.5, 0.6, 0.65]"]
RADIAL_FORMS = ["[0.1, 0.2]", "[0.1, 0.25, 0.3]", "linspace(0.1, 0.5, 3)", "[0.3, 0.1, 0.2, 0.45]", "range(1, 4)",
                "(0.2, 0.4)", "[0.15, 0.2, 0.5, 0.55]", "linspace(0.2,0.3,2)", "arange(0.1, 0.35, 0.1)", "[0.2, 0.5, 0.6]"]


def gen_grid_spec(rng: random.Random, max_cells: int, allow_f12: bool = True, cart_p: float = 0.4) -> dict:
    for _ in range(200):
        b_alg = rng.choice(["cube4D", "randomQ", ""])
        nb = rng.choice([1, 1, rng.randint(4, 20), rng.randint(4, 9), 8, 9])
        o_alg = rng.choice(["ico", "cube3D", "randomS", ""])
        no = rng.choice([rng.randint(1, 26), rng.randint(4, 12), 12, 13, 1, 2, 3, 4])
        t = rng.choice(RADIAL_FORMS) if rng.random() < 0.9 else rng.choice(LONG_RADIAL_FORMS)
        nt = _nt(t)
        if nb * no * nt > max_cells:
            continue
        cartesian = rng.random() < cart_p and no >= 4
        o_name = f"{o_alg}_{no}" if (o_alg and no > 1) else str(no)
        canon_o = f"{o_alg or 'ico'}_{no}"
        if cartesian and canon_o in F12_OPEN_CELL_GRIDS and not allow_f12:
            continue
        return {"b": f"{b_alg}_{nb}" if (b_alg and nb > 1) else str(nb), "o": o_name, "t": t,
                "factor": rng.choice([2, 2, 1, 0.5, 3.3, 2, 1, 1e-6, 1e-3, 1e4]), "cartesian": cartesian,
                "n_b": nb, "n_o": no, "n_t": nt, "canon_o": canon_o}
    raise HarnessError("could not draw a grid spec")


def lib_spec(spec: dict) -> dict:
    return {k: spec[k] for k in ("b", "o", "t", "factor", "cartesian")}


LEGEND_POOL = ["Unnamed: 0", "Unnamed-SOL:Coul-SR", "Coul-SR:SOL-SOL", "Coul-SR:Sol-Sol", "LJ (SR)", "Disper. corr.", "Coulomb (SR)", "Potential", "Kinetic En.", "Total Energy", "Temperature",
               "Pres. DC (bar)", "Pressure", "Constr. rmsd", "Coul. recip.", "Bond", "Angle @ 2", "# weird", "Énergie",
               "a  b", "(x)", "pot [kJ/mol]", "s1 legend", "LJ-14"]


LEGEND_ALPHABET = ("abcdefghijklmnopqrstuvwxyzABCDEFGHIJKLMNOPQRSTUVWXYZ0123456789" + " .,;:!?()[]{}<>+-*/=_%&|~^$#@'`\\"
                   + "  \t\x0b\x0c\x1c\x1d\x1e\x85\xa0\u2028\u2029\u00e9\u00b5\u00c5\u4e2d\u03a9")


def gen_legend(rng: random.Random) -> str:
    """Arbitrary legend text without quotes or line breaks (the statement's envelope)."""
    return "".join(rng.choice(LEGEND_ALPHABET) for _ in range(rng.randint(1, 14)))


def gen_energy_spec(rng: random.Random, sigma=None, fmt=None, simple: bool = False) -> dict:
    n_leg = rng.choice([1, 2, 4, 4, 5, 10, rng.randint(1, 10)])
    legends = rng.sample(LEGEND_POOL, n_leg)
    for i in range(n_leg):
        if rng.random() < 0.3:
            cand = gen_legend(rng)
            if cand not in legends and cand != "Time [ps]":
                legends[i] = cand
    if n_leg >= 2 and rng.random() < 0.1:
        src = legends[0]
        variant = src.swapcase() if src.swapcase() != src else src + "x"
        if variant not in legends:
            legends[1] = variant  # two legends that differ only in case
    if "Potential" not in legends and rng.random() < 0.7:
        legends[rng.randrange(n_leg)] = "Potential"
    column = "Potential" if "Potential" in legends else rng.choice(legends)
    n_hash = rng.choice([13, 13, 12, 0, 1, rng.randint(0, 13)])
    half_range = None
    if sigma is None and rng.random() < 0.22:
        half_range = rng.choice([120.0, 200.0, 240.0, 245.0])
    whole = sigma is None and rng.random() < 0.12
    return {"fmt": fmt or rng.choice(["xvg", "xvg", "csv"]), "legends": legends, "column": column, "n_hash": n_hash,
            "half_range": half_range, "whole_numbers": whole, "dup_frac": rng.choice([0, 0, 0, 0.1, 0.5]),
            "line_style": rng.choice(["plain", "plain", "plain", "trailing_blank", "tabs", "wide_gaps"]),
            "n_at_after": rng.choice([0, 0, 0, 1, 3]),
            "n_at": rng.choice([10, 10, 0, 3, 14, rng.randint(0, 12)]), "sigma": sigma if sigma is not None else rng.choice([0.5, 1, 2, 3, 3, 5, 20]),
            "offset": rng.choice([0.0, -40.0, 12.5]), "seed": rng.randrange(2 ** 32),
            "numfmt": "gmx" if simple else rng.choice(["gmx", "gmx", "gmx_e", "repr", "g17"]),
            "zero_time": rng.random() < 0.5}


# ---------------------------------------------------------------------------------------------------------------------
#   C14
# ---------------------------------------------------------------------------------------------------------------------

SOLVER_TOP = [(None, "LR"), ("pos", "LM"), ("pos", "SR")]
SOLVER_OTHER = [(None, "SR"), (None, "LM")]


class PipelineCheck(Check):
    prop = "C14"
    engine = "pipeline"
    rule = ("one run = one simulated workflow over a scratch directory: stages W (GridWriter, five saves in seeded "
            "order), E (fake GROMACS/ORCA peer writing energy.xvg/.csv, one row per grid row), S (GridReader + "
            "EnergyReader + SQRA.get_rate_matrix + cut_and_merge(None,None) + save_npz), D (load_npz + "
            "DecompositionTool under seeded ARPACK start vectors), each warm or cold (fresh interpreter, own "
            "PYTHONHASHSEED), with faults: crash at any step boundary + re-run from scratch, torn / lost write of the "
            "file in flight, stale directory of another grid, global-RNG perturbation between stages; the stages run inside "
            "a molgri project directory and in a quarter of the runs the stages of a second experiment of the same project "
            "are interleaved; the SqRA stage may scan T/D on the loaded geometry first; the writer's grid may be inspected (1-3 getter calls) before the save; one DecompositionTool may serve several start vectors or be asked once more before the recorded call. Energies: normal, wide below the "
            "cap, radial ramps over up to 15 shells, whole-number columns, duplicate lines, several line layouts, down to "
            "cryogenic temperatures. Swarm over "
            "rotation/direction algorithms, sizes, radial text forms, both position modes, factor, T, D, energy spread, "
            "solver settings. Non-trivial: pipeline completed, all oracles evaluated, and >=1 fault fired or >=1 cold "
            "stage. Distinct = distinct hash of (spec sizes/algorithms/mode, stage schedule with modes and fault kinds, "
            "solver setting).")
    components = {"real": ["molgri.io.GridWriter/GridReader/EnergyReader", "molgri.space.fullgrid.FullGrid and below",
                           "molgri.molecules.transitions.SQRA, DecompositionTool", "numpy.save/load, scipy.sparse "
                           "save_npz/load_npz, ARPACK, pandas", "files in a scratch directory, fresh interpreters "
                           "for cold stages"],
                  "stub": ["Snakemake and the run: bodies of workflow/run_grid, run_sqra (mirrored by stage drivers)",
                           "GROMACS / ORCA (fake peer writing the documented file formats)",
                           "OS entropy for the ARPACK start vector (seeded), wall clock"]}
    assumptions = ["detailed balance checked per pair, relative 1e-9",
                   "eigen-oracle only where both solvers are well conditioned: energy sigma<=3 kJ/mol, T>=250 K, n>=8, "
                   "k<=n-2, dense eig for n<=cap; eigenvector proportionality only with spectral gap >= 1e4*tol*|l|max",
                   "sigma=0 (singular shift) excluded as the statement says; ARPACK non-convergence is counted, not "
                   "judged", "Cartesian mode generated for n_o>=4 only (n_o<3 may be rejected by Qhull, C19)",
                   "disk faults act on whole files between operations (no syscall-level injection into C writers)"]

    def budget(self, tier):
        if tier == "quick":
            return {"runs": 160, "chunk": 1, "wall": 220, "run_timeout": 300, "min_wall": 45, "max_cells": 450}
        return {"runs": 3600, "chunk": 2, "wall": 1750, "run_timeout": 900, "min_wall": 300, "max_cells": 1500}

    def preload(self):
        import molgri.io  # noqa: F401
        import molgri.molecules.transitions  # noqa: F401
        import molgri.space.fullgrid  # noqa: F401
        import pandas  # noqa: F401

    # ------------------------------------------------------------------ generation
    def generate(self, rng: random.Random, tier: str) -> dict:
        bud = self.budget(tier)
        spec = gen_grid_spec(rng, bud["max_cells"], allow_f12=rng.random() < 0.08)
        n = spec["n_b"] * spec["n_o"] * spec["n_t"]
        T = rng.choice([200.0, 250.0, 273.0, 300.0, 300.0, 350.0, 400.0, round(rng.uniform(230, 400), 1)])
        es = gen_energy_spec(rng)
        if spec["n_t"] >= 5 and rng.random() < 0.7:
            es["ramp"] = {"slope": rng.choice([100.0, 300.0, 450.0, -450.0, 480.0, -480.0]), "n_b": spec["n_b"],
                          "n_o": spec["n_o"]}
            es["half_range"] = None
            es["sigma"] = 999
            es["dup_frac"] = 0  # a repeated line would put an energy of another shell next door (beyond the cap)
        if es.get("half_range") or es.get("ramp"):
            # wide spreads are there to approach the documented 500 kJ/mol cap from below: pair them with low
            # temperatures, where the exponents are largest
            # (sometimes cryogenic ones: physical, and where exponentials are closest to overflow)
            T = rng.choice([200.0, 200.0, 215.0, 230.0, 250.0, 273.0, 300.0, 77.0, 77.0, 100.0, 150.0])
        Dconst = 10 ** rng.uniform(-3, 3)
        # solver
        sel, which = rng.choice(SOLVER_TOP + SOLVER_TOP + SOLVER_OTHER)
        sigma = None if sel is None else rng.choice([1e-3, 0.1, 1.0, 10 ** rng.uniform(-3, 1)])
        sigma_rel = None
        if sel is not None and rng.random() < 0.6:
            sigma_rel = rng.choice([1e-3, 1e-2, 0.1, 1.0])
        k = rng.choice([2, 3, 6, 8, 12])
        k = min(k, n - 2)  # scipy's sparse solver needs k < n-1; for n<3 there is no valid k and D is not scheduled
        tol = rng.choice([1e-5, 1e-8, 1e-10, 1e-12])
        # the shipped default is maxiter=100000; a non-converging ARPACK run (counted, not judged) then costs minutes,
        # so the large value is only drawn where convergence is quick
        maxiter = 100000 if (tol >= 1e-8 and sel is not None and rng.random() < 0.3) else rng.choice([3000, 6000])
        if maxiter == 100000 and n > 200:
            # a non-converging shift-invert run on a wide-spectrum matrix of several hundred cells needs tens of minutes
            # at the shipped maxiter (seen in the last thorough run): the shipped value is kept for small grids only
            maxiter = 6000
        solver = {"tol": tol, "maxiter": maxiter, "which": which, "sigma": sigma, "sigma_rel": sigma_rel,
                  "k": k, "seeds": [rng.randrange(2 ** 32) for _ in range(rng.choice([1, 2, 3]))]}
        solver["one_tool"] = rng.random() < 0.4
        solver["extra_call"] = rng.random() < 0.25
        # faults enabled for this run (swarm); ~15% fault free
        enabled = set()
        if rng.random() > 0.15:
            for kind, p in (("crash_stage", 0.6), ("torn_write", 0.5), ("lost_write", 0.4), ("stale_dir", 0.3),
                            ("rng", 0.6), ("cold", 0.3)):
                if rng.random() < p:
                    enabled.add(kind)
        stale = None
        if "stale_dir" in enabled:
            if rng.random() < 0.5:
                # same cell count, different geometry
                stale = dict(spec)
                stale["factor"] = {2: 1, 1: 3.3, 0.5: 2, 3.3: 0.5}.get(spec["factor"], 2)
                stale["t"] = next((t for t in RADIAL_FORMS if t != spec["t"] and _nt(t) == spec["n_t"]), spec["t"])
            else:
                stale = gen_grid_spec(rng, 200, allow_f12=False)
        ops = []

        def maybe_rng_fault():
            if "rng" in enabled and rng.random() < 0.6:
                ops.append({"op": "fault", "fault": RngSeam.generate(rng)})

        def mode():
            if "cold" in enabled and rng.random() < 0.5:
                return {"mode": "cold", "hashseed": rng.randint(1, 2 ** 31),
                        "rng_init": [{"kind": "rng_reseed", "seed": rng.randrange(2 ** 32)}]}
            return {"mode": "warm"}

        order_names = list(GRID_FILES)
        for stage in ("W", "E", "S", "D"):
            if stage == "D" and k < 1:
                break
            attempts = 0
            while "crash_stage" in enabled and attempts < 2 and rng.random() < 0.35:
                attempts += 1
                op = {"op": "stage", "stage": stage, **mode()}
                if stage == "W":
                    order = order_names[:]
                    rng.shuffle(order)
                    op["order"] = order
                    op["crash_after"] = rng.randint(0, len(order))
                else:
                    op["crash"] = {"kind": "crash"}
                    if stage == "D":
                        op["crash"]["at"] = rng.randrange(len(solver["seeds"]))
                kinds = [kd for kd in ("torn_write", "lost_write") if kd in enabled]
                if kinds and stage in ("W", "E", "S") and rng.random() < 0.7:
                    kd = rng.choice(kinds)
                    fault = {"kind": kd, "frac": rng.choice([0.0, 0.1, 0.5, 0.9, 0.99])}
                    if stage == "W":
                        op["disk_fault"] = fault
                    elif kd == "torn_write" or stage == "E":
                        op["crash"] = fault
                ops.append(op)
                maybe_rng_fault()
            op = {"op": "stage", "stage": stage, **mode()}
            if stage == "W":
                order = order_names[:]
                rng.shuffle(order)
                op["order"] = order
                if rng.random() < 0.35:
                    op["looks"] = [rng.choice(sorted(LOOKS)) for _ in range(rng.randint(1, 3))]
            ops.append(op)
            maybe_rng_fault()
        twin = None
        if rng.random() < 0.25:
            tspec = dict(spec) if rng.random() < 0.4 else gen_grid_spec(rng, 200, allow_f12=False)
            tes = gen_energy_spec(rng, fmt=es["fmt"])
            if rng.random() < 0.7:
                tes["legends"], tes["column"] = list(es["legends"]), es["column"]  # same table layout, other values
            twin = {"spec": tspec, "energy": tes}
            tops = []
            for stage in ("W", "E", "S", "D"):
                op = {"op": "stage", "stage": stage, "exp": 1, **mode()}
                if stage == "W":
                    order = order_names[:]
                    rng.shuffle(order)
                    op["order"] = order
                tops.append(op)
            # interleave, keeping each experiment's own order
            merged, a, b = [], list(ops), tops
            while a or b:
                if a and (not b or rng.random() < len(a) / (len(a) + len(b))):
                    merged.append(a.pop(0))
                else:
                    merged.append(b.pop(0))
            ops = merged
        scan = []
        if rng.random() < 0.3:
            scan = [[rng.choice([200.0, 273.0, 350.0]), 10 ** rng.uniform(-3, 3)] for _ in range(rng.choice([1, 2]))]
        return {"kind": "pipeline", "spec": spec, "T": T, "D": Dconst, "scan": scan, "energy": es, "solver": solver,
                "stale": stale, "twin": twin,
                "rng_init": rng.randrange(2 ** 32), "dense_cap": 700 if tier == "quick" else 1600,
                "cold_reference": rng.random() < 0.15, "ops": ops}

    # ------------------------------------------------------------------ execution
    def execute(self, sc: dict) -> dict:
        log = EventLog()
        faults, probes = {}, {}
        # experiment 0 is the main one; an optional twin (experiment 1) is another experiment of the same project whose
        # stages the scheduler interleaves with it - same file names, its own directory, its own grid and energies
        exps = [sc]
        if sc.get("twin"):
            tw = dict(sc)
            tw.update(spec=sc["twin"]["spec"], energy=sc["twin"]["energy"], stale=None, scan=[])
            tw["solver"] = dict(sc["solver"])
            ntw = tw["spec"]["n_b"] * tw["spec"]["n_o"] * tw["spec"]["n_t"]
            tw["solver"]["k"] = min(sc["solver"]["k"], ntw - 2)
            exps.append(tw)
            faults["second_experiment_interleaved"] = 1
        spec = sc["spec"]
        sig = [spec["b"].split("_")[0] if "_" in spec["b"] else "defb", spec["canon_o"].split("_")[0], spec["n_b"],
               spec["n_o"], spec["n_t"], spec["cartesian"], sc["solver"]["which"], sc["solver"]["sigma"] is not None]
        deps = {"W": [], "E": ["W"], "S": ["W", "E"], "D": ["S"]}
        old_cwd = os.getcwd()
        with World(rng_init=sc.get("rng_init", 0xC0FFEE)) as world:
            project = world.make_scratch()
            # the stages run inside a molgri project directory (the folder layout of molgri.paths), as Snakemake does
            try:
                import molgri.paths as mp_
                for name in dir(mp_):
                    if name.startswith("PATH_") and isinstance(getattr(mp_, name), str):
                        os.makedirs(os.path.join(project, getattr(mp_, name)), exist_ok=True)
            except Exception:  # noqa: BLE001
                pass
            os.chdir(project)
            try:
                st = []
                for e, esc in enumerate(exps):
                    d = os.path.join(project, "experiments", f"sqra_{'AB'[e]}", "grid")
                    os.makedirs(d, exist_ok=True)
                    sp = esc["spec"]
                    is_f12 = sp["cartesian"] and sp["canon_o"] in F12_OPEN_CELL_GRIDS
                    st.append({"d": d, "sc": esc, "complete": {"W": False, "E": False, "S": False, "D": False},
                               "executions": 0, "last_fault_exec": 0, "is_f12": is_f12,
                               "f12_key": f"cartesian-open-cells:{sp['canon_o']}" if is_f12 else None})
                cold_stages = 0
                d0 = st[0]["d"]
                if sc.get("stale"):
                    stl = sc["stale"]
                    try:
                        run_stage("W", {"d": d0, "spec": lib_spec(stl), "order": list(GRID_FILES)}, "warm")
                        nst = stl["n_b"] * stl["n_o"] * stl["n_t"]
                        # leftovers of the later stages of the earlier experiment
                        for fn, arr in (("eigenvalues_0.npy", np.zeros(3)), ("eigenvectors_0.npy", np.zeros((nst, 3)))):
                            np.save(os.path.join(d0, fn), arr)
                        shutil.copy(os.path.join(d0, GRID_FILES["adjacency_array"]), os.path.join(d0, "rate_matrix.npz"))
                        faults["stale_dir"] = 1
                        if nst == spec["n_b"] * spec["n_o"] * spec["n_t"]:
                            probes["stale_dir_same_cell_count"] = 1
                        log.add("disk", "stale_dir", [stl["b"], stl["o"], stl["t"]])
                    except (StageFailed, Crash):
                        pass
                for step, op in enumerate(sc["ops"]):
                    if op["op"] == "fault":
                        RngSeam.apply(op["fault"])
                        faults[op["fault"]["kind"]] = faults.get(op["fault"]["kind"], 0) + 1
                        log.add("sim", op["fault"]["kind"])
                        sig.append(("f", op["fault"]["kind"]))
                        continue
                    e = op.get("exp", 0)
                    if e >= len(st):
                        continue
                    x = st[e]
                    esc, d, complete = x["sc"], x["d"], x["complete"]
                    stage = op["stage"]
                    if esc["solver"]["k"] < 1 and stage == "D":
                        continue
                    if not all(complete[y] for y in deps[stage]):
                        probes["stage_skipped_inputs_incomplete"] = probes.get("stage_skipped_inputs_incomplete", 0) + 1
                        continue
                    if complete[stage]:
                        # the workflow engine does not re-run a stage whose outputs are complete
                        probes["stage_skipped_already_complete"] = probes.get("stage_skipped_already_complete", 0) + 1
                        continue
                    args = {"d": d}
                    if stage == "W":
                        args.update(spec=lib_spec(esc["spec"]), order=op["order"], crash_after=op.get("crash_after"),
                                    disk_fault=op.get("disk_fault"), looks=op.get("looks"))
                        if op.get("looks"):
                            probes["writer_grid_inspected_before_save"] = \
                                probes.get("writer_grid_inspected_before_save", 0) + 1
                        crashing = op.get("crash_after") is not None
                    elif stage == "E":
                        args.update(es=esc["energy"], crash=op.get("crash"))
                        crashing = op.get("crash") is not None
                    elif stage == "S":
                        args.update(p={"energy_fmt": esc["energy"]["fmt"], "energy_type": esc["energy"]["column"],
                                       "D": esc["D"], "T": esc["T"], "scan": esc.get("scan", [])}, crash=op.get("crash"))
                        if esc.get("scan"):
                            probes["rate_matrix_scan_on_loaded_geometry"] = 1
                        crashing = op.get("crash") is not None
                    else:
                        args.update(s=esc["solver"], crash=op.get("crash"))
                        crashing = op.get("crash") is not None
                        if (esc["solver"].get("one_tool") and len(esc["solver"]["seeds"]) > 1) or \
                                esc["solver"].get("extra_call"):
                            probes["decomposition_tool_asked_more_than_once"] = 1
                    x["executions"] += 1
                    if op.get("mode") == "cold":
                        cold_stages += 1
                        faults["cold_stage_hashseed"] = faults.get("cold_stage_hashseed", 0) + 1
                    try:
                        res = run_stage(stage, args, op.get("mode", "warm"), op.get("hashseed", 0), op.get("rng_init"))
                        complete[stage] = True
                        log.add(f"{stage}{e}", "done", op.get("mode", "warm"))
                        sig.append((stage, e, op.get("mode", "warm"), "ok"))
                        if stage == "D" and res.get("notes"):
                            probes["solver_no_convergence"] = probes.get("solver_no_convergence", 0) + len(res["notes"])
                    except Crash as c:
                        complete[stage] = False
                        x["last_fault_exec"] = x["executions"]
                        faults["crash_stage"] = faults.get("crash_stage", 0) + 1
                        fk = (op.get("disk_fault") or op.get("crash") or {}).get("kind")
                        if fk in ("torn_write", "lost_write"):
                            faults[fk] = faults.get(fk, 0) + 1
                        log.add(f"{stage}{e}", "crash", str(c))
                        sig.append((stage, e, op.get("mode", "warm"), "crash", fk))
                        if not crashing:
                            raise HarnessError("crash without a scheduled crash")
                    except StageFailed as err:
                        if stage == "D" and "singular" in err.text and self._shift_is_numerically_an_eigenvalue(esc, d):
                            # the statement's precondition "the shift is not itself an eigenvalue" fails at working
                            # precision: |sigma| is below 1e-9 of the largest rate, Q - sigma*I is Q in float64 and
                            # Q has the eigenvalue 0 - the LU factorisation rightly refuses. Nothing to judge.
                            probes["shift_numerically_an_eigenvalue"] = probes.get("shift_numerically_an_eigenvalue", 0) + 1
                            complete[stage] = True
                            log.add(f"{stage}{e}", "shift-singular", op.get("mode", "warm"))
                            sig.append((stage, e, op.get("mode", "warm"), "shift-singular"))
                            continue
                        if x["is_f12"]:
                            raise Violation("pipeline-incomplete", f"stage {stage} cannot complete in Cartesian mode on "
                                            f"direction grid {esc['spec']['canon_o']} (open Voronoi cells): {err.text}",
                                            key=x["f12_key"])
                        raise Violation("pipeline-incomplete", f"stage {stage} ({op.get('mode', 'warm')}"
                                        f"{', second experiment' if e else ''}) failed inside C14's domain: {err.text}")
                judged = 0
                for e, x in enumerate(st):
                    if x["sc"]["solver"]["k"] < 1:
                        x["complete"]["D"] = True
                        probes["decomposition_not_scheduled_tiny_grid"] = 1
                    if not all(x["complete"].values()):
                        continue  # a shrunk schedule may stop early: nothing to judge for this experiment
                    # bounded liveness: once faults stop, every remaining stage ran exactly once
                    if x["executions"] - x["last_fault_exec"] > 4:
                        raise Violation("liveness", f"{x['executions'] - x['last_fault_exec']} stage executions after "
                                                    f"the last fault")
                    self._oracles(x["sc"], x["d"], log, probes, x["f12_key"])
                    judged += 1
                if judged == 0:
                    return {"events": log.n, "fingerprint": log.digest(), "faults": faults, "probes": probes,
                            "sig": None, "nontrivial": False}
                if judged == 2:
                    probes["two_experiments_judged"] = 1
                if sc["solver"]["sigma"] is None:
                    probes["solver_no_shift"] = 1
            finally:
                os.chdir(old_cwd)
        nontrivial = sum(faults.values()) >= 1 or cold_stages >= 1
        return {"events": log.n, "fingerprint": log.digest(), "faults": faults, "probes": probes, "sig": repr(sig),
                "nontrivial": nontrivial, "inter": repr(sig[8:])}

    @staticmethod
    def _shift_is_numerically_an_eigenvalue(esc, d) -> bool:
        from scipy import sparse
        try:
            Q = sparse.load_npz(os.path.join(d, "rate_matrix.npz"))
            sig_used = effective_sigma(esc["solver"], Q)
            scale = float(np.max(np.abs(Q.diagonal())))
        except Exception:  # noqa: BLE001
            return False
        return sig_used is not None and scale > 0 and abs(sig_used) <= 1e-9 * scale

    def _oracles(self, sc, d, log, probes, f12_key):
        """Trusted side: read the files left on the simulated disk with numpy/scipy directly and judge them."""
        from scipy import sparse
        from scipy.sparse.csgraph import connected_components
        spec = sc["spec"]
        n = spec["n_b"] * spec["n_o"] * spec["n_t"]
        V = np.load(os.path.join(d, GRID_FILES["volumes"]))
        A = sparse.load_npz(os.path.join(d, GRID_FILES["adjacency_array"]))
        Q = sparse.load_npz(os.path.join(d, "rate_matrix.npz"))
        rows = energy_tokens(sc["energy"], n)
        col = sc["energy"]["legends"].index(sc["energy"]["column"]) + 1
        E = np.array([float(r[col]) for r in rows])
        T = sc["T"]
        if V.shape != (n,) or Q.shape != (n, n) or A.shape != (n, n):
            raise Violation("shape", f"n={n} but volumes {V.shape}, Q {Q.shape}, adjacency {A.shape}", key=f12_key)
        Qd = Q.toarray()
        if not np.all(np.isfinite(Qd)) or not np.all(V > 0):
            raise Violation("finite-positive", f"non-finite rate entries or non-positive volumes "
                                               f"(min V = {V.min()!r})", key=f12_key)
        off = ~np.eye(n, dtype=bool)
        # (ii) pattern
        Ad = A.toarray() != 0
        patQ = (Qd != 0) & off
        if not np.array_equal(patQ, Ad & off):
            i, j = np.argwhere(patQ != (Ad & off))[0]
            raise Violation("pattern", f"off-diagonal pattern of Q differs from the saved adjacency at ({i},{j}): "
                                       f"Q={Qd[i, j]!r}, adjacent={bool(Ad[i, j])}", key=f12_key)
        # (i) detailed balance per pair, in the symmetric (well conditioned) form
        i, j = np.nonzero(patQ | patQ.T)
        below_cap = np.abs(E[i] - E[j]) < 499.0
        if not np.all(below_cap):
            # beyond the documented 500 kJ/mol cap detailed balance is not claimed
            probes["pairs_beyond_cap_not_judged"] = int((~below_cap).sum())
            i, j = i[below_cap], j[below_cap]
        hx = (E[i] - E[j]) / (2 * R_KJ * T)
        lhs = Qd[i, j] * V[i] * np.exp(-hx)
        rhs = Qd[j, i] * V[j] * np.exp(hx)
        scale = np.maximum(np.abs(lhs), np.abs(rhs))
        bad = np.abs(lhs - rhs) > 1e-9 * scale
        if np.any(bad):
            w = int(np.argmax(np.abs(lhs - rhs) / scale))
            raise Violation("detailed-balance", f"pi_i Q_ij != pi_j Q_ji for cells ({i[w]},{j[w]}): relative "
                                                f"difference {abs(lhs[w] - rhs[w]) / scale[w]:.3g} "
                                                f"(n_b={spec['n_b']}, n_o={spec['n_o']}, n_t={spec['n_t']})", key=f12_key)
        log.add("oracle", "detailed_balance", len(i), float(np.max(np.abs(lhs - rhs) / scale)) if len(i) else 0.0)
        # (iii) the grid files equal an uninterrupted run of the same specification
        names = list(GRID_FILES)
        got = load_digests(d, names)
        ref = run_stage("reference_W", {"spec": lib_spec(spec), "names": names},
                        "cold" if sc.get("cold_reference") else "warm", hashseed=4242,
                        rng_init=[{"kind": "rng_foreign_state", "seed": 31337, "advance": 3}])
        if sc.get("cold_reference"):
            probes["files_compared_with_cold_uninterrupted_run"] = 1
        for nm in names:
            if got[nm] != ref[nm]:
                # C14 as stated is about the files that *are* there; bit-identity with another run is C08's and C20's
                # claim, so this is recorded as a reach probe for the reader of the evidence, never as a C14 alarm
                probes["files_differ_from_uninterrupted_run"] = probes.get("files_differ_from_uninterrupted_run", 0) + 1
        # (iv) decomposition
        s = sc["solver"]
        ncomp = connected_components(sparse.csr_array(Ad), directed=False)[0]
        if ncomp != 1:
            probes["disconnected_grid_skipped"] = 1
        if sc["energy"].get("half_range"):
            probes["wide_energy_spread_below_cap"] = 1
        if sc["energy"].get("ramp"):
            probes["radial_energy_ramp_many_shells"] = 1
        if sc["energy"].get("whole_numbers"):
            probes["integer_valued_energy_column"] = 1
        if not (0.3 <= spec["factor"] <= 4):
            # an extreme metric factor puts the rotational and translational rates 10^6..10^12 apart: the interesting
            # end of the spectrum then sits at relative 1e-8 of |lambda|max, below what either solver resolves
            probes["eigen_oracle_skipped_extreme_factor"] = 1
        well = (sc["energy"]["sigma"] <= 3 and not sc["energy"].get("half_range") and T >= 250 and n >= 8
                and 0.3 <= spec["factor"] <= 4
                and 1 <= s["k"] <= n - 2
                and n <= sc["dense_cap"])
        if not well:
            probes["eigen_oracle_skipped_ill_conditioned_or_small"] = 1
            return
        dense = np.linalg.eigvals(Qd)
        lam_max = float(np.max(np.abs(dense)))
        if np.max(np.abs(dense.imag)) > 1e-8 * lam_max:
            raise Violation("dense-spectrum-complex", "dense spectrum of the rate matrix is not real")
        dense = np.sort(dense.real)[::-1]
        sig_used = effective_sigma(s, Q)
        # accuracy ARPACK can deliver: relative tol on the operator's eigenvalues; in shift-invert mode
        # nu = 1/(lambda - sigma), so d(lambda) ~ tol * |lambda - sigma|: the scale is max(|l|max, |sigma|)
        eff = max(lam_max, abs(sig_used) if sig_used is not None else 0.0)
        tol_ev = (1e3 * s["tol"] + 1e-9) * eff
        if eff > 50 * lam_max:
            probes["shift_far_from_spectrum_loose_oracle"] = 1
        top = (sig_used is None and s["which"] == "LR") or (sig_used is not None and s["which"] in ("LM", "SR"))
        pi = V * np.exp(-(E - E.min()) / (R_KJ * T))
        for si in range(len(s["seeds"])):
            pe = os.path.join(d, f"eigenvalues_{si}.npy")
            if not os.path.exists(pe):
                continue  # ARPACK did not converge for this start vector (counted)
            ev = np.load(pe)
            evec = np.load(os.path.join(d, f"eigenvectors_{si}.npy"))
            tag = f"start vector #{si} (entropy {s['seeds'][si]}), which={s['which']}, sigma={sig_used}, tol={s['tol']}"
            if np.iscomplexobj(ev) or np.iscomplexobj(evec):
                raise Violation("eig-real", f"{tag}: complex output")
            if np.any(np.diff(ev) > 0):
                raise Violation("eig-sorted", f"{tag}: eigenvalues not in descending order: {ev}")
            # one-to-one: every returned eigenvalue needs its own dense partner (a value returned twice must be a
            # double eigenvalue of the matrix); both lists are sorted, so a greedy sweep decides it
            ptr = 0
            for lam in ev:  # both descending: sweep, giving each returned value the first dense value still in reach
                while ptr < len(dense) and dense[ptr] > lam + tol_ev:
                    ptr += 1
                if ptr >= len(dense) or abs(dense[ptr] - lam) > tol_ev:
                    near = float(dense[np.argmin(np.abs(dense - lam))])
                    raise Violation("eig-vs-dense", f"{tag}: eigenvalue {lam!r} has no partner of its own in the dense "
                                                    f"spectrum (nearest dense value {near!r}, tolerance {tol_ev:.3g}, "
                                                    f"|l|max={lam_max:.3g}; returned "
                                                    f"{np.array2string(np.asarray(ev), precision=8)})")
                ptr += 1
            if evec.shape != (n, len(ev)):
                raise Violation("eig-shape", f"{tag}: eigenvector array {evec.shape} for {len(ev)} eigenvalues")
            probes["eigen_oracle_evaluated"] = probes.get("eigen_oracle_evaluated", 0) + 1
            if not top:
                probes["solver_other_end"] = 1
                continue
            if abs(ev[0]) > tol_ev:
                key = None
                if (sig_used is None and abs(dense[0]) <= tol_ev and len(dense) > len(ev)
                        and np.all(np.abs(ev - dense[1:len(ev) + 1]) <= tol_ev)):
                    # finding F13: ARPACK's regular mode multiplies the start vector by the operator first, which
                    # annihilates the null vector of a rate matrix; the returned set is exactly eigenvalues #2..#k+1
                    key = "arpack-no-shift-skips-zero-eigenvalue"
                raise Violation("eig-zero", f"{tag}: largest returned eigenvalue {ev[0]!r} is not zero within tolerance "
                                            f"{tol_ev:.3g}" + (" - the solver returned exactly the dense eigenvalues "
                                            f"#2..#{len(ev) + 1} and skipped the stationary one (n={n}, k={len(ev)})"
                                                               if key else ""), key=key)
            if ncomp != 1:
                continue
            v = evec[:, 0]
            # residual of the returned pair
            resid = np.max(np.abs(v @ Qd - ev[0] * v)) / (eff * np.max(np.abs(v)))
            if resid > 1e3 * s["tol"] + 1e-8:
                raise Violation("eig-residual", f"{tag}: first column is not a left eigenvector (relative residual "
                                                f"{resid:.3g})")
            gap = dense[0] - dense[1]
            if gap < 1e4 * s["tol"] * eff:
                probes["eigenvector_clause_skipped_small_gap"] = probes.get("eigenvector_clause_skipped_small_gap", 0) + 1
                continue
            a = v / v[np.argmax(np.abs(v))]
            b = pi / pi.max()
            err = float(np.max(np.abs(a - b)))
            bound = 100 * s["tol"] * eff / gap + 1e-7
            if err > bound:
                w = int(np.argmax(np.abs(a - b)))
                raise Violation("stationary-vector", f"{tag}: left eigenvector of eigenvalue 0 is not proportional to "
                                                     f"V*exp(-E/RT): max deviation {err:.3g} at cell {w} (bound {bound:.2g})")
            probes["stationary_vector_checked"] = probes.get("stationary_vector_checked", 0) + 1
            log.add("oracle", "stationary", si, err)

    def shrink_candidates(self, sc):
        import copy
        if sc.get("stale"):
            c = copy.deepcopy(sc)
            c["stale"] = None
            yield c
        if sc.get("twin"):
            c = copy.deepcopy(sc)
            c["twin"] = None
            c["ops"] = [o for o in c["ops"] if o.get("exp", 0) == 0]
            yield c
        for i, op in enumerate(sc["ops"]):
            if op.get("mode") == "cold":
                c = copy.deepcopy(sc)
                c["ops"][i]["mode"] = "warm"
                yield c
        if len(sc["solver"]["seeds"]) > 1:
            c = copy.deepcopy(sc)
            c["solver"]["seeds"] = c["solver"]["seeds"][:1]
            for op in c["ops"]:
                if op.get("stage") == "D" and op.get("crash"):
                    op["crash"]["at"] = 0
            yield c
        if sc.get("cold_reference"):
            c = copy.deepcopy(sc)
            c["cold_reference"] = False
            yield c
        sp = sc["spec"]
        for key, lo in (("n_b", 4), ("n_o", 4), ("n_b", 1), ("n_o", 1)):
            if sp[key] > lo and not (key == "n_o" and sp["cartesian"] and lo < 4):
                c = copy.deepcopy(sc)
                self._resize(c["spec"], key, lo)
                c["solver"]["k"] = min(c["solver"]["k"], c["spec"]["n_b"] * c["spec"]["n_o"] * c["spec"]["n_t"] - 2)
                if c["solver"]["k"] < 1:
                    c["ops"] = [o for o in c["ops"] if o.get("stage") != "D"]
                yield c

    @staticmethod
    def _resize(spec, key, val):
        spec[key] = val
        if key == "n_b":
            alg = spec["b"].split("_")[0] if "_" in spec["b"] else ""
            spec["b"] = f"{alg}_{val}" if (alg and val > 1) else str(val)
        else:
            alg = spec["o"].split("_")[0] if "_" in spec["o"] else ""
            spec["o"] = f"{alg}_{val}" if (alg and val > 1) else str(val)
            spec["canon_o"] = f"{alg or 'ico'}_{val}"


def _nt(t: str) -> int:
    return {"[0.1, 0.2]": 2, "[0.1, 0.25, 0.3]": 3, "linspace(0.1, 0.5, 3)": 3, "[0.3, 0.1, 0.2, 0.45]": 4,
            "range(1, 4)": 3, "(0.2, 0.4)": 2, "[0.15, 0.2, 0.5, 0.55]": 4, "linspace(0.2,0.3,2)": 2,
            "arange(0.1, 0.35, 0.1)": 3, "[0.2, 0.5, 0.6]": 3, "linspace(0.1, 1.0, 10)": 10,
            "arange(0.1, 0.85, 0.05)": 15, "[0.1, 0.15, 0.2, 0.3, 0.35, 0.5, 0.6, 0.65]": 8}[t]


# ---------------------------------------------------------------------------------------------------------------------
#   C20
# ---------------------------------------------------------------------------------------------------------------------

_READERS = {}


def load_energy_observation(path: str, column: str, reuse: bool = False) -> dict:
    """What a reader process sees: frame shape, column names, values (as hex, bit exact) and the single column.
    Conversions that fail are reported as part of the observation (the judge turns them into violations).
    With `reuse` the EnergyReader object made for this path earlier in the run is asked again (the file may have been
    rewritten in between)."""
    from molgri.io import EnergyReader
    if reuse and path in _READERS:
        er = _READERS[path]
    else:
        er = _READERS[path] = EnergyReader(path)
    df = er.load_energy()
    obs = {"columns": [str(c) for c in df.columns], "shape": list(df.shape), "index": [repr(i) for i in df.index],
           "values": None, "single": None}
    try:
        obs["values"] = [[float(x).hex() for x in row] for row in df.to_numpy(dtype=float)] if df.shape[0] else []
    except Exception as e:  # noqa: BLE001
        obs["values_error"] = f"{type(e).__name__}: {e}"
    try:
        single = er.load_single_energy_column(column)
        obs["single"] = [float(x).hex() for x in np.asarray(single, dtype=float)]
    except Exception as e:  # noqa: BLE001
        obs["single_error"] = f"{type(e).__name__}: {e}"
    return obs


GROMACS_TOKEN_STYLES = ("gmx", "gmx_e", "repr", "g17", "int", "mixed")


def c20_tokens(es: dict) -> list:
    rs = np.random.RandomState(es["seed"] % (2 ** 32))
    ncol = len(es["legends"]) + 1
    rows = []
    for k in range(es["n_rows"]):
        row = []
        for c in range(ncol):
            mag = rs.choice([1e-3, 1.0, 1e3, 1e6]) if es["numfmt"] != "gmx" else rs.choice([1.0, 100.0, 1e4])
            v = rs.normal() * mag
            style = es["numfmt"]
            if style == "mixed":
                style = ("gmx", "gmx_e", "repr", "g17", "int")[rs.randint(5)]
            if style == "int":
                row.append(str(int(round(v))) + (".0" if c == 0 else ""))
            elif es["numfmt"] == "mixed" and rs.random_sample() < 0.15:
                # other spellings of a number every float parser accepts
                row.append(["%.0f." % abs(v), ("%.3f" % (abs(v) % 1)).lstrip("0") or ".0", "+%.4f" % abs(v),
                            "%.3E" % v, "%de2" % int(round(v % 97))][rs.randint(5)])
            else:
                row.append(_fmt_number(v, style))
        if rows and es.get("dup_frac") and rs.random_sample() < es["dup_frac"]:
            row = list(rows[rs.randint(len(rows))])
        rows.append(row)
    return rows


class PersistenceCheck(Check):
    prop = "C20"
    engine = "pipeline"
    rule = ("one run = either (a) a grid-file history: GridWriter saves of 1-2 specifications on the same paths in "
            "seeded order, possibly crashed (torn / lost file) and re-run, then a warm or cold (fresh interpreter) "
            "GridReader; loaded arrays and sparse matrices must equal, bit for bit incl. format and index arrays, what "
            "the writer object returns in memory, which in turn must equal a FullGrid built directly from the same strings "
            "(the writer's grid may have been inspected through 1-3 getter calls before the save); or (b) an energy-table scenario: a fake GROMACS peer writes an .xvg "
            "(0-13 '#' lines, '@' lines to reach >=13 header lines, 1-10 legends with awkward texts, 1-200 rows in "
            "several number formats), EnergyReader (warm or cold) must return one row per data line in order, columns "
            "Time + legends, values == float(token), the single column, and a csv round trip (to_csv -> EnergyReader) "
            "must be identical; in some histories one reader object is asked again after its file was rewritten; objects a reader loaded earlier are digested again at the end of the run, after later "
            "writes. Non-trivial: an overwrite, crash or cold reader was involved, or >=2 legends with >=2 "
            "rows. Distinct = distinct hash of the scenario shape. Candidly: most of this is a seeded round trip; the "
            "simulator contributes process separation, overwrite/crash histories and the fake peer.")
    components = {"real": ["molgri.io.GridWriter/GridReader/EnergyReader", "numpy/scipy.sparse persistence, pandas",
                           "files in a scratch directory, fresh interpreter for cold readers"],
                  "stub": ["GROMACS gmx energy (fake peer writing .xvg in the documented envelope)"]}
    assumptions = ["stored bytes are never altered behind the library's back (no checksum is promised)",
                   "legend texts distinct, without quotes or line breaks, not equal to the time column's name",
                   "single-position single-radius grids: distances getter left out (finding F5)"]

    def budget(self, tier):
        if tier == "quick":
            return {"runs": 600, "chunk": 6, "wall": 150, "run_timeout": 200, "min_wall": 60}
        return {"runs": 7000, "chunk": 8, "wall": 1600, "run_timeout": 600, "min_wall": 200}

    def preload(self):
        import molgri.io  # noqa: F401
        import pandas  # noqa: F401

    def generate(self, rng, tier):
        if rng.random() < 0.4:
            return self._gen_grid(rng, tier)
        return self._gen_energy(rng, tier)

    @staticmethod
    def _mode(rng, tier):
        return "cold" if rng.random() < (0.07 if tier == "quick" else 0.2) else "warm"

    def _gen_grid(self, rng, tier):
        def one_spec():
            if rng.random() < 0.15:
                return {"b": "1", "o": "1", "t": rng.choice(["[0.2]", "0.3"]), "factor": 2, "cartesian": False,
                        "n_b": 1, "n_o": 1, "n_t": 1, "canon_o": "ico_1", "single": True}
            return gen_grid_spec(rng, 160 if tier == "quick" else 500, allow_f12=False, cart_p=0.35)
        ops = []
        n_specs = rng.choice([1, 1, 2, 2, 3])
        specs = [one_spec() for _ in range(n_specs)]
        if n_specs >= 2 and rng.random() < 0.5 and not specs[0].get("single"):
            # the directory is re-used for the SAME grid names with another position mode or metric factor
            tw = dict(specs[0])
            if tw["n_o"] >= 4 and rng.random() < 0.6:
                tw["cartesian"] = not tw["cartesian"]
            else:
                tw["factor"] = {2: 3.3, 1: 2, 0.5: 1, 3.3: 0.5}.get(tw["factor"], 2)
            specs[1] = tw
        for si, sp in enumerate(specs):
            names = [n for n in GRID_FILES if not (sp.get("single") and n == "distances_array")]
            order = names[:]
            rng.shuffle(order)
            if rng.random() < 0.3:
                ops.append({"op": "write", "spec": sp, "order": order, "crash_after": rng.randint(0, len(order)),
                            "disk_fault": rng.choice([None, {"kind": "torn_write", "frac": rng.choice([0.0, 0.5, 0.95])},
                                                      {"kind": "lost_write"}]),
                            "mode": self._mode(rng, tier), "hashseed": rng.randint(1, 2 ** 31)})
                order = names[:]
                rng.shuffle(order)
            ops.append({"op": "write", "spec": sp, "order": order, "mode": self._mode(rng, tier),
                        "hashseed": rng.randint(1, 2 ** 31)})
            if rng.random() < 0.3:
                ops[-1]["looks"] = [rng.choice(sorted(LOOKS)) for _ in range(rng.randint(1, 3))]
            if rng.random() < 0.5 or si == len(specs) - 1:
                ops.append({"op": "read", "mode": "cold" if rng.random() < (0.2 if tier == "quick" else 0.5) else "warm",
                            "hashseed": rng.randint(1, 2 ** 31)})
        return {"kind": "gridfiles", "rng_init": rng.randrange(2 ** 32), "bare_names": rng.random() < 0.15, "ops": ops}

    def _gen_energy(self, rng, tier):
        es = gen_energy_spec(rng, fmt="xvg")
        es["numfmt"] = rng.choice(GROMACS_TOKEN_STYLES)
        es["n_rows"] = rng.choice([1, 2, 3, 10, 50, rng.randint(1, 200), rng.randint(1, 200),
                                   rng.choice([1000, 2500]) if tier == "thorough" or rng.random() < 0.2 else 77])
        ops = [{"op": "peer_write"},
               {"op": "read", "mode": self._mode(rng, tier), "hashseed": rng.randint(1, 2 ** 31)}]
        if rng.random() < 0.7:
            ops.append({"op": "csv_roundtrip", "mode": self._mode(rng, tier),
                        "hashseed": rng.randint(1, 2 ** 31)})
        if rng.random() < 0.25:
            # the peer is re-run and overwrites a longer/shorter table on the same path
            es2 = gen_energy_spec(rng, fmt="xvg")
            es2["numfmt"] = rng.choice(GROMACS_TOKEN_STYLES)
            es2["n_rows"] = rng.choice([1, 5, 120])
            first = [{"op": "peer_write", "es": es2, "crash": rng.choice([None, {"kind": "torn_write", "frac": 0.5}])}]
            if first[0]["crash"] is None and rng.random() < 0.6:
                # a reader looks at the first table, the table is rewritten, the SAME reader object is asked again
                first.append({"op": "read", "mode": "warm", "hashseed": 0})
                for o in ops:
                    if o["op"] == "read":
                        o["mode"], o["reuse_reader"] = "warm", True
            ops = first + ops
        return {"kind": "energy", "es": es, "rng_init": rng.randrange(2 ** 32), "ops": ops}

    def execute(self, sc):
        if sc["kind"] == "gridfiles":
            return self._exec_grid(sc)
        return self._exec_energy(sc)

    def _exec_grid(self, sc):
        log = EventLog()
        faults, probes = {}, {}
        sig = ["grid"]
        current = None  # (spec, names, in-memory digests) of the last completed write
        writes = 0
        compared = 0
        held = []  # (name, loaded object, digest at load time): what an earlier reader still holds
        old_cwd = os.getcwd()
        with World(rng_init=sc.get("rng_init", 0xC0FFEE)) as world:
            d = world.make_scratch()
            if sc.get("bare_names"):
                # the stage runs inside the grid directory and passes bare file names
                os.chdir(d)
                d = ""
                probes["bare_file_names_in_cwd"] = 1
            for step, op in enumerate(sc["ops"]):
                if op["op"] == "write":
                    sp = op["spec"]
                    args = {"d": d, "spec": lib_spec(sp), "order": op["order"], "crash_after": op.get("crash_after"),
                            "disk_fault": op.get("disk_fault"), "want_digests": True, "looks": op.get("looks")}
                    if op.get("looks"):
                        probes["writer_grid_inspected_before_save"] = probes.get("writer_grid_inspected_before_save", 0) + 1
                    try:
                        res = run_stage("W", args, op.get("mode", "warm"), op.get("hashseed", 0))
                        if current is not None:
                            probes["overwrite_on_same_paths"] = probes.get("overwrite_on_same_paths", 0) + 1
                            if len(current[1]) > len(op["order"]):
                                probes["shorter_file_set_after_longer"] = 1
                        for nm in op["order"]:
                            if res.get("direct_digests") and res["direct_digests"][nm] != res["digests"][nm]:
                                raise Violation("writer-vs-grid", f"step {step}: what the writer holds for "
                                                f"{GRID_FILES[nm]} is not what FullGrid({sp['b']}, {sp['o']}, {sp['t']}, "
                                                f"factor={sp['factor']}, position_grid_cartesian={sp['cartesian']}) gives")
                        current = (sp, list(op["order"]), res["digests"])
                        writes += 1
                        log.add("W", "write", [sp["b"], sp["o"], sp["t"]], res["digests"])
                        sig.append(("w", op.get("mode", "warm"), sp["n_b"] > 1, sp["n_o"], sp["n_t"], sp["cartesian"]))
                    except Crash:
                        faults["crash_stage"] = faults.get("crash_stage", 0) + 1
                        fk = (op.get("disk_fault") or {}).get("kind")
                        if fk:
                            faults[fk] = faults.get(fk, 0) + 1
                        current = None if current is None else ("dirty",) + current[1:]
                        log.add("W", "crash", fk)
                        sig.append(("w-crash", fk))
                    except StageFailed as e:
                        raise Violation(f"exception:{e.etype}", f"step {step}: grid writer failed: {e.text}")
                    if op.get("mode") == "cold":
                        faults["cold_stage_hashseed"] = faults.get("cold_stage_hashseed", 0) + 1
                elif op["op"] == "read":
                    if current is None or current[0] == "dirty":
                        continue  # a reader never starts on an incomplete file set
                    sp, names, mem = current
                    try:
                        largs = {"d": d, "names": names}
                        if op.get("mode", "warm") == "warm":
                            largs["keep"] = held
                        got = run_stage("load_digests", largs, op.get("mode", "warm"), op.get("hashseed", 0))
                    except StageFailed as e:
                        raise Violation(f"exception:{e.etype}", f"step {step}: grid reader failed: {e.text}")
                    if op.get("mode") == "cold":
                        faults["cold_stage_hashseed"] = faults.get("cold_stage_hashseed", 0) + 1
                        probes["cold_reader"] = probes.get("cold_reader", 0) + 1
                    for nm in names:
                        compared += 1
                        if got[nm] != mem[nm]:
                            raise Violation("grid-roundtrip", f"step {step}: {GRID_FILES[nm]} read back as {got[nm]} but "
                                                              f"the writer object holds {mem[nm]} "
                                                              f"(spec {sp['b']}/{sp['o']}/{sp['t']}, cartesian={sp['cartesian']})")
                    log.add("R", "read", op.get("mode", "warm"), got)
                    sig.append(("r", op.get("mode", "warm")))
            # what was read back must stay what it was: a value that silently changes when the directory is re-used
            # later (a lazily loaded or memory-mapped file) was not "read back identically"
            for nm, val, dg in held:
                if digest_any(val) != dg:
                    raise Violation("loaded-value-unstable", f"{GRID_FILES[nm]}: the object a reader loaded earlier "
                                                             f"changed its content after later writes into the directory")
            if held and writes >= 2:
                probes["held_values_rechecked_after_overwrite"] = 1
            os.chdir(old_cwd)
        nontrivial = compared > 0 and (writes >= 2 or sum(faults.values()) >= 1)
        return {"events": log.n, "fingerprint": log.digest(), "faults": faults, "probes": probes, "sig": repr(sig),
                "nontrivial": nontrivial, "inter": repr(sig)}

    def _exec_energy(self, sc):
        import pandas as pd
        log = EventLog()
        faults, probes = {}, {}
        es_main = sc["es"]
        current = None
        compared = 0
        with World(rng_init=sc.get("rng_init", 0xC0FFEE)) as world:
            d = world.make_scratch()
            path = os.path.join(d, "energy.xvg")
            for step, op in enumerate(sc["ops"]):
                if op["op"] == "peer_write":
                    es = op.get("es", es_main)
                    rows = c20_tokens(es)
                    write_xvg(path, es, rows)
                    if op.get("crash"):
                        with open(path, "rb") as f:
                            blob = f.read()
                        with open(path, "wb") as f:
                            f.write(blob[: int(len(blob) * op["crash"]["frac"])])
                        faults["torn_write"] = faults.get("torn_write", 0) + 1
                        faults["crash_stage"] = faults.get("crash_stage", 0) + 1
                        current = "dirty"
                        continue
                    if current is not None:
                        probes["overwrite_on_same_paths"] = probes.get("overwrite_on_same_paths", 0) + 1
                    current = (es, rows)
                    log.add("peer", "write_xvg", [es["n_hash"], len(es["legends"]), len(rows), es["numfmt"]])
                    if len(es["legends"]) == 10:
                        probes["ten_legends"] = probes.get("ten_legends", 0) + 1
                    if es["n_hash"] < 13:
                        probes["fewer_than_13_hash_lines"] = probes.get("fewer_than_13_hash_lines", 0) + 1
                elif op["op"] in ("read", "csv_roundtrip"):
                    if current is None or current == "dirty":
                        continue
                    es, rows = current
                    if op["op"] == "read":
                        target = path
                    else:
                        # orca_collect_energies / users: DataFrame.to_csv of the loaded frame, then EnergyReader(csv)
                        with lib_call(f"step {step} EnergyReader(xvg).load_energy"):
                            from molgri.io import EnergyReader
                            frame = EnergyReader(path).load_energy()
                        target = os.path.join(d, "energy.csv")
                        frame.to_csv(target)
                    try:
                        largs = {"path": target, "column": es["column"]}
                        if op.get("mode", "warm") == "warm" and op.get("reuse_reader"):
                            largs["reuse"] = True
                            probes["reader_object_reused"] = probes.get("reader_object_reused", 0) + 1
                        obs = run_stage("load_energy", largs, op.get("mode", "warm"), op.get("hashseed", 0))
                    except StageFailed as e:
                        raise Violation(f"exception:{e.etype}", f"step {step}: EnergyReader failed on {op['op']} "
                                                                f"({len(es['legends'])} legends, {es['n_hash']} '#' "
                                                                f"lines, {len(rows)} rows): {e.text}")
                    if op.get("mode") == "cold":
                        faults["cold_stage_hashseed"] = faults.get("cold_stage_hashseed", 0) + 1
                        probes["cold_reader"] = probes.get("cold_reader", 0) + 1
                    self._judge_energy(obs, es, rows, f"step {step} {op['op']}")
                    compared += 1
                    log.add("R", op["op"], op.get("mode", "warm"), digest_any(json.dumps(obs, sort_keys=True)))
        es = es_main
        sig = ["energy", es["n_hash"], len(es["legends"]), es["numfmt"], min(es["n_rows"], 3),
               [o["op"] + ":" + o.get("mode", "") for o in sc["ops"]]]
        nontrivial = compared > 0 and (len(es["legends"]) >= 2 and es["n_rows"] >= 2 or sum(faults.values()) >= 1)
        return {"events": log.n, "fingerprint": log.digest(), "faults": faults, "probes": probes, "sig": repr(sig),
                "nontrivial": nontrivial, "inter": repr(sig[5])}

    @staticmethod
    def _judge_energy(obs, es, rows, what):
        exp_cols = ["Time [ps]"] + list(es["legends"])
        if obs["columns"] != exp_cols:
            raise Violation("energy-columns", f"{what}: columns {obs['columns']} != {exp_cols}")
        if obs["shape"] != [len(rows), len(exp_cols)]:
            raise Violation("energy-shape", f"{what}: frame shape {obs['shape']} for {len(rows)} data lines and "
                                            f"{len(exp_cols)} columns")
        exp = [[float(tok).hex() for tok in row] for row in rows]
        if "csv_roundtrip" in what and obs["index"] != [repr(i) for i in range(len(rows))]:
            raise Violation("energy-row-order", f"{what}: row index {obs['index'][:4]}... does not read back as 0..n-1")
        if obs.get("values_error"):
            raise Violation("energy-values", f"{what}: frame is not numeric: {obs['values_error']}")
        if obs["values"] != exp:
            for r, (a, b) in enumerate(zip(obs["values"], exp)):
                if a != b:
                    c = [x != y for x, y in zip(a, b)].index(True)
                    raise Violation("energy-values", f"{what}: row {r} column {exp_cols[c]!r}: read "
                                                     f"{float.fromhex(a[c])!r}, file token {rows[r][c]!r}")
        ci = exp_cols.index(es["column"])
        if obs.get("single_error") or obs["single"] != [row[ci] for row in exp]:
            raise Violation("energy-single-column", f"{what}: single column {es['column']!r} differs from the frame "
                                                    f"({obs.get('single_error', 'values differ')})")

    def shrink_candidates(self, sc):
        import copy
        for i, op in enumerate(sc["ops"]):
            if op.get("mode") == "cold":
                c = copy.deepcopy(sc)
                c["ops"][i]["mode"] = "warm"
                yield c
        if sc["kind"] == "energy":
            es = sc["es"]
            if es["n_rows"] > 1:
                for nr in (1, es["n_rows"] // 2):
                    if 1 <= nr < es["n_rows"]:
                        c = copy.deepcopy(sc)
                        c["es"]["n_rows"] = nr
                        yield c
            if len(es["legends"]) > 1:
                c = copy.deepcopy(sc)
                keep = [l for l in es["legends"] if l == es["column"]] or es["legends"][:1]
                c["es"]["legends"] = keep
                yield c
