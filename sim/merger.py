"""
Engine `merger` (property C13): seeded histories of merge / delete / cut-and-merge operations that thread the returned
index list, dense and sparse in lock-step, checked after every operation against a set-partition reference model.

The "nodes" are the caller and the library API whose state (the index list) the caller must carry from call to call;
the "faults" are the message-level faults of the join/delete lists the property names: duplicated, re-ordered,
overlapping, stale (already merged / already deleted) members.
"""
from __future__ import annotations

import random

import numpy as np

from .core import Check, EventLog, Violation, lib_call, digest_array, derive_seed

KB_NA = None  # filled in preload


# ---------------------------------------------------------------------------------------------------------------------
#   reference model
# ---------------------------------------------------------------------------------------------------------------------

class PartitionModel:
    """Groups of original cell ids.  `merge` has two readings when an *absent* cell is the only link between two
    sublists (DESIGN §4 C13, soundness note): strict (absent cells dropped before the closure) and raw (closure over
    the lists as given).  Both results are produced; the run accepts either and follows the one returned."""

    def __init__(self, n: int):
        self.groups = [[i] for i in range(n)]
        self.deleted_any = False

    def copy(self):
        m = PartitionModel(0)
        m.groups = [list(g) for g in self.groups]
        m.deleted_any = self.deleted_any
        return m

    def present(self):
        return {c for g in self.groups for c in g}

    def _group_of(self, c):
        for gi, g in enumerate(self.groups):
            if c in g:
                return gi
        return None

    @staticmethod
    def _close(sublists):
        # union-find over arbitrary hashable items
        parent = {}

        def find(x):
            parent.setdefault(x, x)
            while parent[x] != x:
                parent[x] = parent[parent[x]]
                x = parent[x]
            return x

        for sub in sublists:
            sub = list(sub)
            for x in sub:
                find(x)
            for a, b in zip(sub, sub[1:]):
                ra, rb = find(a), find(b)
                if ra != rb:
                    parent[ra] = rb
        comps = {}
        for x in parent:
            comps.setdefault(find(x), []).append(x)
        return list(comps.values())

    def merged(self, lists, raw: bool):
        """Return the partition after uniting, for each (closed) sublist, the groups containing its present cells."""
        lists = [[int(c) for c in sub] for sub in lists]
        present = self.present()
        if raw:
            closed = self._close(lists)
            closed = [[c for c in comp if c in present] for comp in closed]
        else:
            closed = [[c for c in sub if c in present] for sub in lists]
        # now unite groups: closure over group indices
        as_groups = [[("g", self._group_of(c)) for c in sub] for sub in closed if sub]
        comps = self._close(as_groups)
        absorbed = {}
        for comp in comps:
            idx = sorted(g for _, g in comp)
            for g in idx[1:]:
                absorbed[g] = idx[0]
        new = []
        for gi, g in enumerate(self.groups):
            if gi in absorbed:
                continue
            new.append(list(g))
        # add members
        pos = {}
        k = 0
        for gi in range(len(self.groups)):
            if gi not in absorbed:
                pos[gi] = k
                k += 1
        for gi, tgt in absorbed.items():
            new[pos[tgt]].extend(self.groups[gi])
        new = [sorted(g) for g in new]
        new.sort(key=lambda g: g[0])
        return new

    def deleted(self, cells):
        cells = {int(c) for c in cells}
        return [list(g) for g in self.groups if not (set(g) & cells)]


def lumped(M0: np.ndarray, groups: list, zero_rows: bool) -> np.ndarray:
    """Expected matrix: block sums of the original; after a deletion the diagonal is minus the off-diagonal row sum."""
    k = len(groups)
    P = np.zeros((M0.shape[0], k))
    for j, g in enumerate(groups):
        P[g, j] = 1
    E = P.T @ M0 @ P
    if zero_rows:
        np.fill_diagonal(E, 0)
        np.fill_diagonal(E, -E.sum(axis=1))
    return E


def make_matrix(spec: dict) -> np.ndarray:
    n = spec["n"]
    rs = np.random.RandomState(spec["seed"] % (2 ** 32))
    dens = spec.get("density", 0.6)
    if spec["values"] == "int":
        vals = rs.randint(1, 60, size=(n, n)).astype(float)
    else:
        vals = rs.uniform(0.05, 9.0, size=(n, n))
    mask = rs.random_sample((n, n)) < dens
    M = np.where(mask, vals, 0.0)
    kind = spec["kind"]
    if kind in ("gen_sym", "arb_sym"):
        M = np.triu(M, 1)
        M = M + M.T + (np.diag(np.diag(np.where(mask, vals, 0.0))) if kind == "arb_sym" else 0)
    if kind in ("gen_sym", "gen_asym"):
        np.fill_diagonal(M, 0)
        np.fill_diagonal(M, -M.sum(axis=1))
    # magnitudes: rate matrices come in arbitrary units; a power of two keeps integer-valued sums exact
    M = M * (2.0 ** spec.get("scale_pow2", 0))
    if spec.get("dtype") == "int64" and spec["values"] == "int" and spec.get("scale_pow2", 0) == 0:
        return np.ascontiguousarray(M, dtype=np.int64)  # integer count matrices are matrices too
    return np.ascontiguousarray(M, dtype=float)


# ---------------------------------------------------------------------------------------------------------------------
#   the check
# ---------------------------------------------------------------------------------------------------------------------

FAULT_KINDS = ("dup_member", "overlap_sublists", "reversed_dup_pair", "already_merged_member", "already_deleted_member",
               "singleton_sublist", "numpy_array_lists", "bridge_via_existing_group", "whole_sublist_deleted",
               "permuted_redelivery", "duplicated_redelivery", "empty_join_list", "dup_delete_member",
               "delete_member_of_merged_group")


class MergerCheck(Check):
    prop = "C13"
    engine = "merger"
    rule = ("one run = one seeded history: a matrix kind (zero-row-sum generator sym/asym, arbitrary, arbitrary sym; "
            "integer-valued or real), a size from a swarm (2-8 mostly, 30-150 in ~30% of runs), 1-8 merge/delete "
            "operations threading the index list on ndarray and csr_array in lock-step, with message faults on the "
            "join/delete lists (duplicates, overlaps, reversed pairs, stale merged/deleted members, bridges through "
            "existing groups, permuted/duplicated re-delivery, step-wise vs one-shot branches); or one "
            "SQRA.cut_and_merge scenario (all four limit combinations; 4-120 cells, sometimes 1010-1600 with a long plateau, "
            "sometimes production size 20000-80000 cells judged with sparse algebra; a second call on the same object at "
            "another temperature). Further dimensions of the swarm: magnitudes 2^-40..2^50, float64/int64, dense memory "
            "layout (C / Fortran / transposed view), the caller's container types (list, tuple, set, frozenset, array), "
            "histories of up to 24 operations, one chain of >=1000 neighbouring pairs on a 1010-1300 cell matrix, and runs "
            "in which 2-5 independent histories are advanced in an interleaved order inside one process. A run is non-trivial if >=2 operations changed "
            "the partition or >=1 message fault fired, and >=1 oracle was evaluated; distinct = distinct hash of "
            "(matrix kind, n bucket, sequence of (op kind, fault kinds, #groups after)).")
    components = {"real": ["molgri.molecules.rate_merger.merge_matrix_cells", "delete_rate_cells", "merge_sublists",
                           "determine_rate_cells_to_join", "determine_rate_cells_with_too_high_energy",
                           "molgri.molecules.transitions.SQRA.cut_and_merge", "SQRA.get_rate_matrix",
                           "numpy/scipy.sparse/networkx"],
                  "stub": ["the caller that threads the index list (simulated), grid geometry for cut_and_merge "
                           "(synthetic graph instead of a FullGrid)"]}
    assumptions = ["cells >= n (never existed) and deleting the last remaining group are not generated",
                   "empty join *sublists* ([[ ]]) are not generated (statement silent); an empty join list is",
                   "absent cell as only bridge between sublists: both partitions accepted (ambiguous_absent_bridge)",
                   "integer-valued matrices compared exactly; real-valued with rtol 1e-12 of max|M0|"]

    def budget(self, tier):
        if tier == "quick":
            return {"runs": 24000, "chunk": 250, "wall": 150, "run_timeout": 90, "min_wall": 30}
        return {"runs": 700000, "chunk": 2000, "wall": 1500, "run_timeout": 90, "min_wall": 120}

    def preload(self):
        global KB_NA
        import molgri.molecules.rate_merger as rm
        import molgri.molecules.transitions as tr
        from scipy.constants import k as kB, N_A
        KB_NA = kB * N_A
        self.rm, self.tr = rm, tr

    # ------------------------------------------------------------------ generation
    def generate(self, rng: random.Random, tier: str) -> dict:
        if rng.random() < 0.12:
            return self._gen_cut_and_merge(rng, tier)
        if rng.random() < (0.004 if tier == "quick" else 0.002):
            return self._gen_long_chain(rng)
        if rng.random() < 0.1 and not getattr(self, "_in_multi", False):
            # several independent callers in one process: unrelated histories on unrelated matrices, interleaved
            self._in_multi = True
            try:
                subs = []
                while len(subs) < rng.randint(2, 5):
                    sub = self.generate(rng, tier)
                    if sub["kind"] == "history" and sub["matrix"]["n"] <= 40:
                        subs.append(sub)
            finally:
                self._in_multi = False
            order = [i for i, sub in enumerate(subs) for _ in sub["ops"]]
            rng.shuffle(order)
            return {"kind": "multi", "subs": subs, "order": order, "ops": []}
        big = rng.random() < 0.3
        if big:
            n = rng.randint(30, 150)
        else:
            n = rng.choice([2, 3, 3, 4, 4, 5, 5, 6, 6, 7, 8, rng.randint(9, 29)])
        spec = {"n": n, "kind": rng.choice(["gen_sym", "gen_asym", "arb", "arb_sym"]),
                "values": "int" if rng.random() < 0.7 else "real", "seed": rng.randrange(2 ** 32),
                "density": rng.choice([0.2, 0.6, 1.0]),
                "scale_pow2": rng.choice([0, 0, 0, -40, -30, -20, -10, 20, 50]),
                "dtype": "int64" if rng.random() < 0.08 else "float64",
                "layout": rng.choice(["C", "C", "C", "F", "Tview"])}
        model = PartitionModel(n)  # strict model, used only to bias generation
        ops = []
        n_ops = rng.randint(1, 8) if rng.random() < 0.9 else rng.randint(9, 24)
        faults_enabled = set(k for k in FAULT_KINDS if rng.random() < 0.6)
        if rng.random() < 0.15:
            faults_enabled = set()
        for _ in range(n_ops):
            if len(model.groups) <= 1:
                break
            if rng.random() < 0.62:
                op = self._gen_merge(rng, model, n, faults_enabled, big)
                model.groups = model.merged(op["lists"], raw=False)
            else:
                op = self._gen_delete(rng, model, n, faults_enabled, big)
                if op is None:
                    continue
                model.groups = model.deleted(op["cells"])
                model.deleted_any = True
            ops.append(op)
        return {"kind": "history", "matrix": spec, "ops": ops}

    def _gen_long_chain(self, rng):
        """Real rate matrices have 10^3..10^5 cells and plateaus of neighbouring cells that are merged as one long
        chain of pairs (what determine_rate_cells_to_join emits): recursion depth, quadratic searches and index
        dtypes only show at this size."""
        n = rng.randint(1010, 1300)
        spec = {"n": n, "kind": rng.choice(["gen_sym", "gen_asym"]), "values": "int", "seed": rng.randrange(2 ** 32),
                "density": 0.01, "scale_pow2": 0}
        start = rng.randint(0, n - 1001)
        length = rng.randint(1000, n - start)
        chain = [[i, i + 1] for i in range(start, start + length - 1)]
        order = rng.choice(["ascending", "descending", "both_directions", "shuffled"])
        if order == "descending":
            chain = [[b, a] for a, b in reversed(chain)]
        elif order == "both_directions":
            chain = [p for a, b in chain for p in ([a, b], [b, a])]
        elif order == "shuffled":
            rng.shuffle(chain)
        ops = []
        if rng.random() < 0.6:
            # thread an index list first so that the re-indexing branch sees the chain
            a, b = rng.sample(range(n), 2)
            ops.append({"op": rng.choice(["merge", "delete"]), **({"lists": [[a, b]]} if True else {}), "faults": []})
            if ops[0]["op"] == "delete":
                ops[0] = {"op": "delete", "cells": [a], "faults": []}
        ops.append({"op": "merge", "lists": chain, "faults": ["long_chain_" + order]})
        return {"kind": "history", "matrix": spec, "ops": ops}

    def _gen_merge(self, rng, model, n, fe, big):
        present = sorted(model.present())
        absent = sorted(set(range(n)) - set(present))
        merged_groups = [g for g in model.groups if len(g) > 1]
        faults = []
        lists = []
        n_sub = rng.choice([0, 1, 1, 1, 2, 2, 3, 4]) if not big else rng.choice([1, 2, 3, 5, 8, 20])
        if n_sub == 0:
            if "empty_join_list" in fe:
                faults.append("empty_join_list")
            else:
                n_sub = 1
        for _ in range(n_sub):
            size = rng.choice([2, 2, 2, 3, 4]) if not big else rng.choice([2, 2, 3, 5, 10])
            size = min(size, len(present))
            sub = rng.sample(present, size)
            lists.append(sub)
        if lists:
            if "dup_member" in fe and rng.random() < 0.3:
                sub = rng.choice(lists)
                sub.insert(rng.randrange(len(sub) + 1), rng.choice(sub))
                faults.append("dup_member")
            if "overlap_sublists" in fe and len(lists) >= 2 and rng.random() < 0.4:
                a, b = rng.sample(range(len(lists)), 2)
                lists[b].append(rng.choice(lists[a]))
                faults.append("overlap_sublists")
            if "reversed_dup_pair" in fe and rng.random() < 0.3:
                sub = rng.choice(lists)
                lists.append(list(reversed(sub)))
                faults.append("reversed_dup_pair")
            if "already_merged_member" in fe and merged_groups and rng.random() < 0.4:
                g = rng.choice(merged_groups)
                rng.choice(lists).extend(rng.sample(g, min(len(g), rng.choice([1, 2]))))
                faults.append("already_merged_member")
            if "bridge_via_existing_group" in fe and merged_groups and rng.random() < 0.4:
                g = rng.choice(merged_groups)
                a, b = rng.sample(g, 2)
                others = [c for c in present if c not in g]
                if len(others) >= 2:
                    x, y = rng.sample(others, 2)
                    lists.append([x, a])
                    lists.append([y, b])
                    faults.append("bridge_via_existing_group")
            if "already_deleted_member" in fe and absent and rng.random() < 0.4:
                rng.choice(lists).insert(rng.randrange(2), rng.choice(absent))
                faults.append("already_deleted_member")
            if "whole_sublist_deleted" in fe and absent and rng.random() < 0.3:
                lists.append(rng.sample(absent, min(len(absent), rng.choice([1, 2]))))
                faults.append("whole_sublist_deleted")
            if "singleton_sublist" in fe and rng.random() < 0.25:
                lists.append([rng.choice(present)])
                faults.append("singleton_sublist")
            rng.shuffle(lists)
        op = {"op": "merge", "lists": lists, "faults": faults}
        if "numpy_array_lists" in fe and lists and rng.random() < 0.25:
            op["as_array"] = True
            faults.append("numpy_array_lists")
        elif lists and rng.random() < 0.2:
            # the caller's container types: tuples / sets of cells, a tuple of sublists
            op["container"] = rng.choice(["tuple", "set", "outer_tuple"])
            faults.append("container_" + op["container"])
        # branches from the same state: step-wise delivery, permuted / duplicated re-delivery
        if lists and rng.random() < 0.5:
            op["stepwise"] = True
        if lists and rng.random() < 0.5:
            alt = [list(s) for s in lists]
            if "permuted_redelivery" in fe or rng.random() < 0.5:
                rng.shuffle(alt)
                for s in alt:
                    rng.shuffle(s)
                faults.append("permuted_redelivery")
            if "duplicated_redelivery" in fe and rng.random() < 0.6:
                alt += [list(s) for s in rng.sample(alt, rng.randint(1, len(alt)))]
                rng.shuffle(alt)
                faults.append("duplicated_redelivery")
            op["alt"] = alt
        return op

    def _gen_delete(self, rng, model, n, fe, big):
        present = sorted(model.present())
        absent = sorted(set(range(n)) - set(present))
        ng = len(model.groups)
        if ng <= 1:
            return None
        faults = []
        if big and rng.random() < 0.6:
            # delete most of a large matrix: what real use does, and what makes set iteration order visible
            frac = rng.choice([0.5, 0.8, 0.9, 0.95])
            k = max(1, min(ng - 1, int(ng * frac)))
            victims = rng.sample(range(ng), k) if rng.random() < 0.5 else list(range(k))
        else:
            k = rng.randint(0, max(0, min(ng - 1, 3)))
            victims = rng.sample(range(ng), k)
        cells = []
        for gi in victims:
            g = model.groups[gi]
            if len(g) > 1:
                faults.append("delete_member_of_merged_group")
            cells.append(rng.choice(g))
        if cells and "dup_delete_member" in fe and rng.random() < 0.3:
            cells.append(rng.choice(cells))
            faults.append("dup_delete_member")
        if absent and "already_deleted_member" in fe and rng.random() < 0.4:
            cells.append(rng.choice(absent))
            faults.append("already_deleted_member")
        rng.shuffle(cells)
        # never delete everything
        hit = {gi for gi, g in enumerate(model.groups) if set(g) & set(cells)}
        if len(hit) >= ng:
            return None
        op = {"op": "delete", "cells": cells, "faults": faults}
        if "numpy_array_lists" in fe and rng.random() < 0.3:
            op["as_array"] = True
            faults.append("numpy_array_lists")
        elif rng.random() < 0.25:
            op["container"] = rng.choice(["tuple", "set", "frozenset"])
            faults.append("container_" + op["container"])
        return op

    def _gen_cut_and_merge(self, rng, tier):
        n = rng.choice([4, 5, 6, 8, 12, 20, rng.randint(30, 120)])
        if rng.random() < 0.03:
            n = rng.randint(1010, 1600)  # a realistic grid size with long plateaus
        if rng.random() < 0.025:
            return self._gen_huge_cut_and_merge(rng)
        # geometry: chain + a few random extra symmetric neighbour pairs
        pairs = {(i, i + 1) for i in range(n - 1)}
        for _ in range(rng.randint(0, n)):
            a, b = rng.sample(range(n), 2)
            pairs.add((min(a, b), max(a, b)))
        pairs = sorted(pairs)
        # energies with plateaus (so that the lower limit merges something) in kJ/mol
        T = rng.choice([200.0, 273.0, 300.0, 400.0])
        levels = [round(rng.uniform(-20, 40), 3) for _ in range(rng.randint(1, max(1, min(n // 2, 40))))]
        if n >= 1000:
            levels = levels[:2]
        energies = [rng.choice(levels) + (0.0 if rng.random() < 0.6 else round(rng.uniform(-0.5, 0.5), 4))
                    for _ in range(n)]
        if n >= 1000:
            # one long plateau of neighbouring cells along the chain
            a0 = rng.randint(0, n - 1001)
            for i in range(a0, a0 + 1001):
                energies[i] = levels[0]
        kT = 8.31446261815324e-3 * T  # kJ/mol
        # thresholds chosen half-way between distinct values of the compared quantities (never borderline)
        deltas = sorted({abs(energies[a] - energies[b]) / kT for a, b in pairs})
        lower = None
        if rng.random() < 0.65:
            cands = [0.0005] + [(x + y) / 2 for x, y in zip(deltas, deltas[1:])]
            lower = rng.choice(cands[: max(1, len(cands) // 2 + 1)])
            if any(abs(d - lower) < 1e-7 for d in deltas):
                lower = lower + 3e-7
        upper = None
        if rng.random() < 0.65:
            ev = sorted({e / kT for e in energies})
            cands = [(x + y) / 2 for x, y in zip(ev, ev[1:])] + [ev[-1] + 1.0]
            upper = rng.choice(cands)
        return {"kind": "cut_and_merge", "n": n, "pairs": pairs, "energies": energies, "T": T,
                "lower": lower, "upper": upper, "seed": rng.randrange(2 ** 32),
                "D": rng.choice([1.0, 1.0, 2.0 ** -40, 2.0 ** -20, 2.0 ** 30]),
                "second_T": rng.choice([None, 100.0, 150.0, 350.0, 600.0]),
                "fmt": rng.choice(["coo", "csr"]), "ops": []}

    def _gen_huge_cut_and_merge(self, rng):
        """Production-size grids (real SqRA grids have 10^4..10^5 cells): a chain of n cells with a few short energy
        plateaus, some of them at the high-index end.  Judged with sparse algebra (no dense model of this size)."""
        n = rng.choice([rng.randint(46400, 52000), rng.randint(65600, 80000), rng.randint(20000, 40000)])
        plateaus = []
        for _ in range(rng.randint(1, 4)):
            ln = rng.randint(2, 8)
            where = rng.choice(["end", "end", "start", "middle"])
            a = {"end": n - ln - rng.randint(0, 20), "start": rng.randint(0, 200),
                 "middle": rng.randint(n // 3, 2 * n // 3)}[where]
            plateaus.append([max(0, a), ln])
        return {"kind": "cut_and_merge_huge", "n": n, "plateaus": plateaus, "T": rng.choice([273.0, 300.0]),
                # (the deletion step of the library is quadratic in the number of cells - minutes at this size - so
                # the production-size scenario exercises the merge step only)
                "upper": False, "seed": rng.randrange(2 ** 32), "ops": []}

    def _exec_huge(self, sc: dict) -> dict:
        from scipy.sparse import diags, csr_array, coo_array
        tr = self.tr
        n = sc["n"]
        rs = np.random.RandomState(sc["seed"] % (2 ** 32))
        E = rs.uniform(0.0, 30.0, size=n)
        for a, ln in sc["plateaus"]:
            E[a:a + ln] = E[a]
        hot = []
        if sc["upper"]:
            hot = sorted(set(int(x) for x in rs.randint(0, n, size=5)) - {c for a, ln in sc["plateaus"]
                                                                         for c in range(a, a + ln)})
            E[hot] = 900.0
        off = rs.uniform(0.5, 2.0, size=n - 1)
        # sparse *arrays* with int32 indices in row-major coo order, as the workflow's load_npz hands them over
        idx = np.arange(n - 1, dtype=np.int32)
        r_ = np.concatenate([idx, idx + 1])
        c_ = np.concatenate([idx + 1, idx])
        order = np.lexsort((c_, r_))
        r_, c_ = r_[order].astype(np.int32), c_[order].astype(np.int32)
        vals = np.concatenate([off, off])[order]
        h = coo_array((vals, (r_, c_)), shape=(n, n))
        sfc = coo_array((vals * 1.5, (r_.copy(), c_.copy())), shape=(n, n))
        V = rs.uniform(0.5, 2.0, size=n)
        T = sc["T"]
        kT = KB_NA * T / 1000.0
        with lib_call("SQRA.get_rate_matrix (huge chain)"):
            sq = tr.SQRA(energies=E, volumes=V, distances=h, surfaces=sfc)
            Q = sq.get_rate_matrix(1.0, T)
        lower = 1e-6
        upper = 300.0 if sc["upper"] else None
        what = f"cut_and_merge(n={n}, plateaus={sc['plateaus']}, upper={'yes' if sc['upper'] else 'no'})"
        with lib_call(what):
            R, il = sq.cut_and_merge(Q.copy(), T=T, lower_limit=lower, upper_limit=upper)
        # model: neighbouring cells with exactly equal energy are united; hot cells deleted
        group_of = np.arange(n)
        for i in range(n - 1):
            if abs(E[i] - E[i + 1]) * 1000 / (KB_NA * T) < lower:
                group_of[i + 1] = group_of[i]
        groups = {}
        for c in range(n):
            groups.setdefault(int(group_of[c]), []).append(c)
        exp = [g for g in groups.values() if not (set(g) & set(hot))]
        if il is None:
            raise Violation("cm-list-missing", f"{what}: no index list returned")
        got = [[int(c) for c in g] for g in il]
        if got != exp:
            bad = next((a, b) for a, b in zip(got + [None], exp + [None]) if a != b)
            raise Violation("index-list-mismatch", f"{what}: index list differs from the model, first difference "
                                                   f"{bad[0]} vs {bad[1]} ({len(got)} vs {len(exp)} groups)")
        k = len(exp)
        rows = np.concatenate([np.array(g) for g in exp])
        cols = np.concatenate([np.full(len(g), j) for j, g in enumerate(exp)])
        P = csr_array(coo_array((np.ones(len(rows)), (rows, cols)), shape=(n, k)))
        Eref = (P.T @ csr_array(Q) @ P).tolil()
        Eref.setdiag(0)
        Eref = csr_array(Eref)
        Rc = csr_array(R)
        Roff = Rc.tolil()
        Roff.setdiag(0)
        diff = abs(csr_array(Roff) - Eref)
        scale = float(abs(Q).max())
        if diff.nnz and diff.max() > 1e-12 * scale:
            raise Violation("lumping", f"{what}: off-diagonal entries differ from the block sums by {diff.max():.3g}")
        rsum = np.abs(np.asarray(Rc.sum(axis=1)).ravel()).max()
        if rsum > 1e-9 * scale:
            raise Violation("row-sum", f"{what}: rows do not sum to zero (max {rsum:.3g})")
        return {"events": 3, "fingerprint": f"{n}:{k}", "faults": {"production_size_grid": 1},
                "probes": {"huge_grid_cells_over_46340": int(n > 46340), "huge_grid_cells_over_65536": int(n > 65536)},
                "sig": repr(["cmh", n // 5000, len(sc["plateaus"]), sc["upper"]]), "nontrivial": True,
                "inter": repr(["cmh", sc["upper"]])}

    # ------------------------------------------------------------------ execution
    def execute(self, scenario: dict) -> dict:
        if scenario["kind"] == "multi":
            return self._exec_multi(scenario)
        if scenario["kind"] == "cut_and_merge_huge":
            return self._exec_huge(scenario)
        if scenario["kind"] == "cut_and_merge":
            return self._exec_cut_and_merge(scenario)
        return self._exec_history(scenario)

    @staticmethod
    def _norm_list(index_list):
        return [[int(c) for c in g] for g in index_list]

    def _check_state(self, log, M0, spec, groups_options, got_matrix, got_list, deleted_any, what, exact):
        """Returns the accepted partition.  Raises Violation."""
        try:
            got = self._norm_list(got_list)
        except Exception as e:  # noqa: BLE001
            raise Violation("index-list-shape", f"{what}: index list is not a list of lists of ints: {got_list!r}")
        # structural clauses stated by the property, independent of the model
        flat = [c for g in got for c in g]
        if len(flat) != len(set(flat)):
            raise Violation("groups-not-disjoint", f"{what}: groups overlap: {got}")
        if any(g != sorted(g) for g in got):
            raise Violation("group-not-sorted", f"{what}: a group is not sorted: {got}")
        if any(len(g) == 0 for g in got):
            raise Violation("empty-group", f"{what}: empty group in {got}")
        if [g[0] for g in got] != sorted(g[0] for g in got):
            raise Violation("groups-not-ordered", f"{what}: groups not ordered by smallest member: {got}")
        accepted = None
        for opt in groups_options:
            if got == opt:
                accepted = opt
                break
        if accepted is None:
            raise Violation("index-list-mismatch", f"{what}: index list {_short(got)} != model {_short(groups_options[0])}")
        A = np.asarray(got_matrix.toarray() if hasattr(got_matrix, "toarray") else got_matrix, dtype=float)
        M0 = np.asarray(M0, dtype=float)
        k = len(accepted)
        if A.shape != (k, k):
            raise Violation("shape", f"{what}: matrix shape {A.shape} but {k} groups")
        zero_rows_in = spec["kind"] in ("gen_sym", "gen_asym")
        E = lumped(M0, accepted, zero_rows=deleted_any)
        scale = float(np.abs(M0).max()) * M0.shape[0]
        tol = 0.0 if exact else 1e-12 * scale
        off = ~np.eye(k, dtype=bool)
        if k > 1:
            d = np.abs(A - E)[off].max()
            if d > tol:
                i, j = np.argwhere((np.abs(A - E) > tol) & off)[0]
                raise Violation("lumping", f"{what}: entry ({accepted[i][:4]},{accepted[j][:4]}) = {A[i, j]!r} but "
                                            f"sum of original entries = {E[i, j]!r}")
        dd = np.abs(np.diag(A) - np.diag(E)).max() if k else 0.0
        # "exact lumping ... with DELETIONS re-setting the diagonal": a merge alone is P^T M P, diagonal blocks included
        if dd > tol:
            i = int(np.argmax(np.abs(np.diag(A) - np.diag(E))))
            orc = "diag-after-delete" if deleted_any else "diag-lump"
            raise Violation(orc, f"{what}: diagonal of group {accepted[i][:4]} = {A[i, i]!r}, expected {E[i, i]!r}")
        if deleted_any or zero_rows_in:
            rs = np.abs(A.sum(axis=1)).max() if k else 0.0
            if rs > (0.0 if exact else 1e-10 * scale):
                raise Violation("row-sum", f"{what}: rows do not sum to zero (max |row sum| = {rs!r})")
        if spec["kind"] in ("gen_sym", "arb_sym"):
            if np.abs(A - A.T).max() > tol:
                raise Violation("symmetry", f"{what}: symmetric input gave an asymmetric result")
        return accepted

    def _exec_multi(self, sc: dict) -> dict:
        """Independent histories advanced in an interleaved order inside one process; each is judged on its own."""
        gens = [self._history_steps(sub) for sub in sc["subs"]]
        results = [None] * len(gens)
        for i in sc["order"] + list(range(len(gens))) * 40:
            if results[i] is not None:
                continue
            try:
                next(gens[i])
            except StopIteration as stop:
                results[i] = stop.value
            if all(r is not None for r in results):
                break
        faults, probes = {"interleaved_independent_histories": 1}, {}
        events = 0
        for r in results:
            if r is None:
                continue
            events += r["events"]
            for k, v in r["faults"].items():
                faults[k] = faults.get(k, 0) + v
            for k, v in r["probes"].items():
                probes[k] = probes.get(k, 0) + v
        return {"events": events, "fingerprint": "|".join(r["fingerprint"] for r in results if r), "faults": faults,
                "probes": probes, "sig": repr(["multi"] + [r["sig"] for r in results if r]), "nontrivial": True,
                "inter": repr(sc["order"])}

    def _exec_history(self, sc: dict) -> dict:
        g = self._history_steps(sc)
        while True:
            try:
                next(g)
            except StopIteration as stop:
                return stop.value

    def _history_steps(self, sc: dict):
        """The history as a cooperative task: yields after every operation (a pre-emption point for _exec_multi)."""
        from scipy.sparse import csr_array
        rm = self.rm
        spec = sc["matrix"]
        M0 = make_matrix(spec)
        exact = spec["values"] == "int"
        log = EventLog()
        faults = {}
        probes = {}
        model = PartitionModel(spec["n"])
        cur_d, cur_s, il_d, il_s = M0.copy(), csr_array(M0), None, None
        # memory layout of the caller's dense array: row-major, column-major, or a transposed view
        if spec.get("layout") == "F":
            cur_d = np.asfortranarray(M0)
            faults["dense_fortran_order"] = 1
        elif spec.get("layout") == "Tview":
            cur_d = np.ascontiguousarray(M0.T).T
            faults["dense_transposed_view"] = 1
        sig = [spec["kind"], spec["values"], _bucket(spec["n"]), spec.get("scale_pow2", 0)]
        changed_ops = 0
        log.add("caller", "start", [spec["kind"], spec["n"], spec["values"]], digest_array(M0))
        for step, op in enumerate(sc["ops"]):
            for f in op.get("faults", []):
                faults[f] = faults.get(f, 0) + 1
            before = [list(g) for g in model.groups]
            if op["op"] == "merge":
                lists = [list(s) for s in op["lists"]]
                if any(len(s) == 0 for s in lists):
                    continue  # outside the generated domain (can only appear through shrinking)
                strict = model.merged(lists, raw=False)
                raw = model.merged(lists, raw=True)
                options = [strict] if strict == raw else [strict, raw]
                if strict != raw:
                    probes["ambiguous_absent_bridge"] = probes.get("ambiguous_absent_bridge", 0) + 1
                arg = [np.array(s) for s in lists] if op.get("as_array") else lists
                if op.get("container") == "tuple":
                    arg = [tuple(s) for s in lists]
                elif op.get("container") == "set":
                    arg = [set(s) if len(set(s)) > 1 or len(s) == 1 else list(s) for s in lists]
                elif op.get("container") == "outer_tuple":
                    arg = tuple(list(s) for s in lists)
                what = f"step {step} merge({_short(lists)})"
                with lib_call(what + " [dense]"):
                    rd, ld = rm.merge_matrix_cells(cur_d, _cp(arg), index_list=_cp(il_d))
                with lib_call(what + " [sparse]"):
                    rs_, ls = rm.merge_matrix_cells(cur_s, _cp(arg), index_list=_cp(il_s))
                acc = self._check_state(log, M0, spec, options, rd, ld, model.deleted_any, what + " [dense]", exact)
                acc_s = self._check_state(log, M0, spec, options, rs_, ls, model.deleted_any, what + " [sparse]", exact)
                if acc != acc_s:
                    raise Violation("dense-vs-sparse", f"{what}: dense list {_short(acc)} != sparse list {_short(acc_s)}")
                self._same(rd, rs_, what, "dense-vs-sparse", exact, M0)
                unambiguous = strict == raw
                # branch: step-wise delivery from the same state
                if op.get("stepwise") and unambiguous and lists:
                    bd, bl = cur_d, il_d
                    for sub in lists:
                        with lib_call(what + f" [step-wise {sub}]"):
                            bd, bl = rm.merge_matrix_cells(bd, [list(sub)], index_list=_cp(bl))
                    if self._norm_list(bl) != acc:
                        raise Violation("stepwise-vs-oneshot", f"{what}: step-wise list {_short(self._norm_list(bl))} "
                                                               f"!= one-shot {_short(acc)}")
                    self._same(rd, bd, what, "stepwise-vs-oneshot", exact, M0)
                    probes["branch_stepwise"] = probes.get("branch_stepwise", 0) + 1
                if op.get("alt") is not None and unambiguous:
                    alt = [list(s) for s in op["alt"] if len(s) > 0]
                    if model.merged(alt, raw=False) == strict == model.merged(alt, raw=True):
                        with lib_call(what + f" [re-delivery {_short(alt)}]"):
                            ad, al = rm.merge_matrix_cells(cur_s if step % 2 else cur_d, alt,
                                                           index_list=_cp(il_s if step % 2 else il_d))
                        if self._norm_list(al) != acc:
                            raise Violation("order-redundancy", f"{what}: re-delivered join list {_short(alt)} gave "
                                                                f"{_short(self._norm_list(al))} != {_short(acc)}")
                        self._same(rd, ad, what, "order-redundancy", exact, M0)
                        probes["branch_redelivery"] = probes.get("branch_redelivery", 0) + 1
                model.groups = acc
                if any(len(g) > 1 for g in before) and len(acc) < len(before):
                    probes["merge_after_merge"] = probes.get("merge_after_merge", 0) + 1
                if model.deleted_any and len(acc) < len(before):
                    probes["merge_after_delete"] = probes.get("merge_after_delete", 0) + 1
                cur_d, cur_s, il_d, il_s = rd, rs_, ld, ls
            elif op["op"] == "delete":
                cells = [int(c) for c in op["cells"]]
                exp = model.deleted(cells)
                if len(exp) == 0:
                    continue  # never delete everything (shrinking may produce it)
                arg = np.array(cells, dtype=int) if op.get("as_array") else list(cells)
                cont = op.get("container")
                if cont == "tuple":
                    arg = tuple(cells)
                elif cont == "set":
                    arg = set(cells)
                elif cont == "frozenset":
                    arg = frozenset(cells)
                if il_d is None:
                    # first operation of the history addresses rows directly; same thing while no list exists
                    pass
                what = f"step {step} delete({_short(cells)})"
                with lib_call(what + " [dense]"):
                    rd, ld = rm.delete_rate_cells(cur_d, _cp(arg), index_list=_cp(il_d))
                with lib_call(what + " [sparse]"):
                    rs_, ls = rm.delete_rate_cells(cur_s, _cp(arg), index_list=_cp(il_s))
                model_deleted = True
                acc = self._check_state(log, M0, spec, [exp], rd, ld, model_deleted, what + " [dense]", exact)
                self._check_state(log, M0, spec, [exp], rs_, ls, model_deleted, what + " [sparse]", exact)
                self._same(rd, rs_, what, "dense-vs-sparse", exact, M0)
                if len(exp) < len(before) and any(len(g) > 1 for g in before):
                    probes["delete_after_merge"] = probes.get("delete_after_merge", 0) + 1
                kept_rows = [i for i, g in enumerate(before) if g in exp]
                if kept_rows and len(kept_rows) < max(kept_rows) * 0.6 and max(kept_rows) >= 30:
                    probes["sparse_keep_set_large_index"] = probes.get("sparse_keep_set_large_index", 0) + 1
                model.groups = acc
                model.deleted_any = True
                cur_d, cur_s, il_d, il_s = rd, rs_, ld, ls
            else:
                raise ValueError(op["op"])
            if model.groups != before:
                changed_ops += 1
            sig.append((op["op"], tuple(sorted(set(op.get("faults", [])))), len(model.groups)))
            log.add("caller", op["op"], op.get("lists", op.get("cells")), [len(model.groups), digest_array(np.asarray(cur_d))])
            yield step
        nontrivial = (changed_ops >= 2 or sum(faults.values()) >= 1) and len(sc["ops"]) >= 1
        return {"events": log.n, "fingerprint": log.digest(), "faults": faults, "probes": probes,
                "sig": repr(sig), "nontrivial": nontrivial,
                "inter": repr([(o["op"], tuple(o.get("faults", []))) for o in sc["ops"]])}

    @staticmethod
    def _same(a, b, what, oracle, exact, M0):
        A = np.asarray(a.toarray() if hasattr(a, "toarray") else a, dtype=float)
        B = np.asarray(b.toarray() if hasattr(b, "toarray") else b, dtype=float)
        if A.shape != B.shape:
            raise Violation(oracle, f"{what}: shapes differ {A.shape} vs {B.shape}")
        if A.size == 0:
            return
        tol = 0.0 if exact else 1e-12 * float(np.abs(M0).max()) * M0.shape[0]
        if np.abs(A - B).max() > tol:
            raise Violation(oracle, f"{what}: matrices differ by {np.abs(A - B).max()!r}")

    def _exec_cut_and_merge(self, sc: dict) -> dict:
        from scipy.sparse import coo_array
        tr = self.tr
        n = sc["n"]
        log = EventLog()
        rs = np.random.RandomState(sc["seed"] % (2 ** 32))
        rows, cols = [], []
        for a, b in sc["pairs"]:
            rows += [a, b]
            cols += [b, a]
        order = np.lexsort((cols, rows))  # row-major coo, what the package produces
        rows, cols = np.array(rows)[order], np.array(cols)[order]
        hvals = {}
        svals = {}
        for a, b in sc["pairs"]:
            hvals[(a, b)] = hvals[(b, a)] = rs.uniform(0.5, 3.0)
            svals[(a, b)] = svals[(b, a)] = rs.uniform(0.2, 5.0)
        h = coo_array((np.array([hvals[(r, c)] for r, c in zip(rows, cols)]), (rows, cols)), shape=(n, n))
        s = coo_array((np.array([svals[(r, c)] for r, c in zip(rows, cols)]), (rows, cols)), shape=(n, n))
        if sc["fmt"] == "csr":
            h, s = h.tocsr(), s.tocsr()
        E = np.array(sc["energies"], dtype=float)
        V = rs.uniform(0.5, 4.0, size=n)
        T = sc["T"]
        lower, upper = sc["lower"], sc["upper"]
        what = f"cut_and_merge(n={n}, lower={lower}, upper={upper})"
        with lib_call("SQRA.get_rate_matrix"):
            sq = tr.SQRA(energies=E, volumes=V, distances=h, surfaces=s)
            Q = sq.get_rate_matrix(sc.get("D", 1.0), T)
        Q0 = Q.toarray()
        with lib_call(what):
            R, il = sq.cut_and_merge(Q.copy(), T=T, lower_limit=lower, upper_limit=upper)
        # model
        kT = KB_NA * T / 1000.0
        model = PartitionModel(n)
        probes = {f"limits_lower={'y' if lower is not None else 'n'}_upper={'y' if upper is not None else 'n'}": 1}
        if lower is not None:
            joins = [[int(a), int(b)] for a, b in zip(rows, cols) if abs(E[a] - E[b]) * 1000 / (KB_NA * T) < lower]
            model.groups = model.merged(joins, raw=False)
            if len(model.groups) < n:
                probes["cm_merged_something"] = 1
            else:
                probes["cm_lower_merged_nothing"] = 1
        if upper is not None:
            too_high = [i for i in range(n) if E[i] * 1000 / (KB_NA * T) > upper]
            if len(too_high) == 0:
                probes["cm_upper_removed_nothing"] = 1
            exp = model.deleted(too_high)
            if len(exp) == 0:
                return {"events": 1, "fingerprint": "skip", "faults": {}, "probes": {"cm_skipped_all_deleted": 1},
                        "sig": None, "nontrivial": False}
            model.groups = exp
            model.deleted_any = True
        Rarr = R.toarray() if hasattr(R, "toarray") else np.asarray(R)
        if il is None:
            # allowed only together with the unchanged matrix
            if Rarr.shape != Q0.shape or np.abs(Rarr - Q0).max() > 0:
                raise Violation("cm-list-missing", f"{what}: matrix reduced {Q0.shape}->{Rarr.shape} but no index "
                                                   f"list returned")
            if len(model.groups) != n:
                raise Violation("cm-not-applied", f"{what}: limits select cells to merge/delete but the matrix is "
                                                  f"unchanged")
        else:
            spec = {"kind": "gen_asym", "n": n}
            if len(il) != Rarr.shape[0]:
                raise Violation("cm-list-rows", f"{what}: {len(il)} groups for {Rarr.shape[0]} rows")
            self._check_state(log, Q0, spec, [model.groups], R, il, model.deleted_any, what, exact=False)
        log.add("sqra", "cut_and_merge", [n, lower, upper], [None if il is None else len(il), digest_array(Rarr)])
        if sc.get("second_T") and lower is not None:
            # the same SQRA object asked again at another temperature (a temperature scan of the lumping)
            T2 = sc["second_T"]
            what2 = f"second cut_and_merge on the same object (T={T2}, lower={lower}, upper={upper})"
            with lib_call(what2):
                Q2 = sq.get_rate_matrix(sc.get("D", 1.0), T2)
                R2, il2 = sq.cut_and_merge(Q2.copy(), T=T2, lower_limit=lower, upper_limit=upper)
            m2 = PartitionModel(n)
            deltas = [abs(E[a] - E[b]) * 1000 / (KB_NA * T2) for a, b in zip(rows, cols)]
            ev2 = [E[i] * 1000 / (KB_NA * T2) for i in range(n)]
            borderline = any(abs(x - lower) < 1e-7 for x in deltas) or \
                (upper is not None and any(abs(x - upper) < 1e-7 for x in ev2))
            joins2 = [[int(a), int(b)] for (a, b), dlt in zip(zip(rows, cols), deltas) if dlt < lower]
            m2.groups = m2.merged(joins2, raw=False)
            ok_to_judge = not borderline
            if upper is not None:
                hot = [i for i in range(n) if ev2[i] > upper]
                exp2 = m2.deleted(hot)
                if len(exp2) == 0:
                    ok_to_judge = False
                m2.groups = exp2
                m2.deleted_any = True
            if ok_to_judge and il2 is not None:
                self._check_state(log, Q2.toarray(), {"kind": "gen_asym", "n": n}, [m2.groups], R2, il2,
                                  m2.deleted_any, what2, exact=False)
                probes["cm_second_call_other_temperature"] = 1
        sig = ["cm", _bucket(n), lower is not None, upper is not None, len(model.groups) < n, il is None]
        return {"events": log.n, "fingerprint": log.digest(), "faults": {}, "probes": probes, "sig": repr(sig),
                "nontrivial": lower is not None or upper is not None,
                "inter": repr(["cm", lower is not None, upper is not None])}

    # ------------------------------------------------------------------ shrinking
    def shrink_candidates(self, sc: dict):
        import copy
        if sc["kind"] != "history":
            return
        # simplify single ops: drop branches, drop sublists, drop members
        for i, op in enumerate(sc["ops"]):
            for key in ("alt", "stepwise", "as_array"):
                if key in op:
                    c = copy.deepcopy(sc)
                    del c["ops"][i][key]
                    yield c
            if op["op"] == "merge":
                for j in range(len(op["lists"])):
                    c = copy.deepcopy(sc)
                    del c["ops"][i]["lists"][j]
                    c["ops"][i].pop("alt", None)
                    yield c
                    for m in range(len(op["lists"][j])):
                        if len(op["lists"][j]) > 1:
                            c = copy.deepcopy(sc)
                            del c["ops"][i]["lists"][j][m]
                            c["ops"][i].pop("alt", None)
                            yield c
            else:
                for j in range(len(op["cells"])):
                    if len(op["cells"]) > 1:
                        c = copy.deepcopy(sc)
                        del c["ops"][i]["cells"][j]
                        yield c
        # smaller matrix: drop the highest unused cells
        used = {int(x) for op in sc["ops"] for sub in (op.get("lists") or [op.get("cells", [])]) for x in sub}
        for op in sc["ops"]:
            for sub in op.get("alt", []) or []:
                used |= {int(x) for x in sub}
        n = sc["matrix"]["n"]
        need = (max(used) + 1) if used else 2
        # relabel the cells that are mentioned to 0..k-1 and shrink the matrix to them
        if used and sorted(used) != list(range(len(used))) or (used and n > max(len(used), 2)):
            remap = {c: i for i, c in enumerate(sorted(used))}
            c = copy.deepcopy(sc)
            for op in c["ops"]:
                if "lists" in op:
                    op["lists"] = [[remap[int(x)] for x in sub] for sub in op["lists"]]
                if "alt" in op:
                    op["alt"] = [[remap[int(x)] for x in sub] for sub in op["alt"]]
                if "cells" in op:
                    op["cells"] = [remap[int(x)] for x in op["cells"]]
            c["matrix"]["n"] = max(len(used) + 1, 2)
            yield c
        for new_n in sorted({max(need, 2), max(need, n // 2), n - 1}):
            if 2 <= new_n < n:
                c = copy.deepcopy(sc)
                c["matrix"]["n"] = new_n
                yield c
        if sc["matrix"].get("scale_pow2", 0) != 0:
            c = copy.deepcopy(sc)
            c["matrix"]["scale_pow2"] = 0
            yield c
        if sc["matrix"]["values"] != "int":
            c = copy.deepcopy(sc)
            c["matrix"]["values"] = "int"
            yield c


def _cp(x):
    """The caller hands the library its own objects; give it copies so that in-place edits cannot leak into the model
    or into the twin (dense/sparse) history."""
    import copy
    return copy.deepcopy(x)


def _short(x, lim: int = 12):
    s = repr(x)
    return s if len(s) <= 160 else s[:150] + "...]"


def _bucket(n: int) -> str:
    for b in (2, 3, 4, 5, 6, 8, 16, 29, 64, 150):
        if n <= b:
            return f"<={b}"
    return ">150"
