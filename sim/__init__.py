"""Deterministic simulation with fault injection for molgri (see /verif/DESIGN.md)."""
