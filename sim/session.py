"""
Engine `session` (properties C08 and C18).

C08: one run is a seeded *history* inside a warm interpreter holding up to four live library objects - constructions,
getter calls in any order and repetition, drops - with faults between any two operations on the process-global numpy
generator (surface S1), clock jumps, and process restarts under a different PYTHONHASHSEED (surface S3).  Oracle: every
observation must be bit-identical to a reference computed in a fresh interpreter, on a fresh object, as its first call;
the reference itself is computed twice (different hash seeds, different initial RNG states, different order) and both
must agree.

C18: subdivision histories of one or two live polytopes with the same faults, checked after every operation against an
independently computed ideal lattice and an append-only index log.
"""
from __future__ import annotations

import json
import os
import random
import subprocess
import sys

import numpy as np

from .core import (Check, EventLog, Violation, HarnessError, World, RngSeam, lib_call, quiet, digest_any, derive_seed,
                   VERIF_DIR, N_WORKERS)

POLY_ALGS = ("ico", "cube3D", "cube4D")
DIM = {"ico": 3, "cube3D": 3, "randomS": 3, "zero3D": 3, "cube4D": 4, "randomQ": 4, "fulldiv": 4, "zero4D": 4}
SPHERE_GETTERS_3D = ("array", "array_full", "adjacency", "borders", "distances", "volumes", "volumes_approx",
                     "volumes", "hull_measures")
SPHERE_GETTERS_4D = ("array", "array_full", "adjacency", "borders", "distances", "volumes", "hull_measures")
FULL_GETTERS = ("full_array", "total_volumes", "full_adjacency", "full_borders", "full_distances",
                "position_volumes", "position_adjacency", "position_borders", "position_distances",
                "position_array", "full_adjacency_only_position", "full_adjacency_only_orientation",
                "full_prefactors", "body_rotations", "between_radii")


# ---------------------------------------------------------------------------------------------------------------------
#   driving the library (shared by warm histories, cold children and the reference workers)
# ---------------------------------------------------------------------------------------------------------------------

def spec_key(spec: dict) -> str:
    s = {k: v for k, v in spec.items() if k not in ("timed",)}
    return json.dumps(s, sort_keys=True)


def make_object(spec: dict):
    if spec["type"] == "sphere":
        from molgri.space.rotobj import SphereGridFactory
        kw = {"time_generation": True} if spec.get("timed") else {}
        return SphereGridFactory.create(spec["alg"], spec["N"], DIM[spec["alg"]], **kw)
    from molgri.space.fullgrid import FullGrid
    return FullGrid(spec["b"], spec["o"], spec["t"], factor=spec["factor"],
                    position_grid_cartesian=spec["cartesian"])


def call_getter(obj, spec: dict, getter: str):
    if spec["type"] == "sphere":
        if getter == "array":
            return obj.get_grid_as_array()
        if getter == "array_full":
            return obj.get_grid_as_array(only_upper=False)
        if getter == "adjacency":
            return obj.get_voronoi_adjacency()
        if getter == "borders":
            return obj.get_cell_borders()
        if getter == "distances":
            return obj.get_center_distances()
        if getter == "volumes":
            return obj.get_spherical_voronoi().get_voronoi_volumes()
        if getter == "volumes_approx":
            return obj.get_spherical_voronoi().get_voronoi_volumes(approx=True)
        if getter == "hull_measures":
            hulls = obj.get_spherical_voronoi().get_convex_hulls()
            return np.array([[h.area, h.volume] for h in hulls])
    else:
        if getter == "full_array":
            return obj.get_full_grid_as_array()
        if getter == "total_volumes":
            return obj.get_total_volumes()  # as handed out: a list is not an array to the caller
        if getter == "full_adjacency":
            return obj.get_full_adjacency()
        if getter == "full_borders":
            return obj.get_full_borders()
        if getter == "full_distances":
            return obj.get_full_distances()
        if getter == "position_volumes":
            return obj.get_position_grid().get_all_position_volumes()
        if getter == "position_adjacency":
            return obj.get_position_grid().get_adjacency_of_position_grid()
        if getter == "position_borders":
            return obj.get_position_grid().get_borders_of_position_grid()
        if getter == "position_distances":
            return obj.get_position_grid().get_distances_of_position_grid()
        if getter == "position_array":
            return obj.get_position_grid().get_position_grid_as_array()
        if getter == "full_adjacency_only_position":
            return obj.get_full_adjacency(only_position=True)
        if getter == "full_adjacency_only_orientation":
            return obj.get_full_adjacency(only_orientation=True)
        if getter == "full_prefactors":
            return obj.get_full_prefactors()
        if getter == "body_rotations":
            return obj.get_body_rotations().as_quat()
        if getter == "between_radii":
            return obj.get_between_radii()
    raise HarnessError(f"unknown getter {getter} for {spec}")


def observe(obj, spec: dict, getter: str, keep: list = None) -> str:
    """Digest of a getter's value; an exception is an observation too (C08 is about sameness, not about success)."""
    try:
        with quiet():
            val = call_getter(obj, spec, getter)
        dg = digest_any(val)
        if keep is not None and len(keep) < 10:
            keep.append((spec_key(spec), getter, val, dg))  # the caller goes on holding what it was given
        return dg
    except HarnessError:
        raise
    except Exception as e:  # noqa: BLE001
        return f"EXC:{type(e).__name__}"


def observe_fresh(spec: dict, getter: str) -> str:
    try:
        with quiet():
            obj = make_object(spec)
    except Exception as e:  # noqa: BLE001
        return f"EXC-CREATE:{type(e).__name__}"
    return observe(obj, spec, getter)


def run_child(job: dict, hashseed: int, timeout: float = 1800) -> dict:
    """Run a job in a fresh interpreter with the given PYTHONHASHSEED (cold stage)."""
    env = dict(os.environ)
    env["PYTHONHASHSEED"] = str(hashseed)
    p = subprocess.run([sys.executable, os.path.join(VERIF_DIR, "sim", "child.py")], input=json.dumps(job),
                       capture_output=True, text=True, env=env, timeout=timeout)
    if p.returncode != 0:
        raise HarnessError(f"cold child failed rc={p.returncode}: {p.stderr[-2000:]}")
    marker = "@@RESULT@@"
    idx = p.stdout.rfind(marker)
    if idx < 0:
        raise HarnessError(f"cold child gave no result: {p.stdout[-500:]} {p.stderr[-500:]}")
    return json.loads(p.stdout[idx + len(marker):])


def child_reference(job: dict) -> dict:
    """Executed inside the cold child: reference digests, each on a fresh object as its first call."""
    for f in job.get("rng_init", []):
        RngSeam.apply(f)
    out = {}
    for spec, getter in job["pairs"]:
        out[spec_key(spec) + "|" + getter] = observe_fresh(spec, getter)
    return out


# ---------------------------------------------------------------------------------------------------------------------
#   C08
# ---------------------------------------------------------------------------------------------------------------------

class SessionCheck(Check):
    prop = "C08"
    engine = "session"
    rule = ("one run = one seeded history of 12-60 operations in a warm interpreter with <=4 live objects: "
            "create sphere grid (8 algorithms) / full grid, getter calls in any order and repetition, prefix "
            "comparisons N vs N+M, drops, with faults between operations (global RNG reseed / draw / foreign state / "
            "library seed constants, clock jump, restart in a cold interpreter under another PYTHONHASHSEED), auxiliary "
            "public calls in between (PositionVoronoi, related half Voronoi, index helpers, names, raw Voronoi getters, "
            "from_full_array_to_o_b_t), full-grid twins with equal names but another factor / position mode / spelling "
            "of the radii. A sample of the returned objects is kept by the simulated caller and digested again at "
            "the end of the history (the kind of container - list, tuple, array - is part of every digest). "
            "Non-trivial: >=1 fault fired or >=2 objects alive at once, and >=1 observation compared with the "
            "cold reference. Distinct = distinct hash of the sequence of (op kind, spec, getter, fault kind).")
    components = {"real": ["molgri.space.rotobj / polytopes / voronoi / fullgrid / translations, molgri.naming",
                           "numpy global RNG, scipy (Qhull, SphericalVoronoi), networkx",
                           "fresh interpreters for the reference and for restart faults"],
                  "stub": ["wall clock (SimClock bound to rotobj.time / wrappers.time / transitions.time)"]}
    assumptions = ["only call-level interleavings: the RNG is never perturbed *inside* a library call",
                   "returned arrays are never mutated by the harness",
                   "an exception is treated as an observation: the same call must raise the same exception type "
                   "in every history (C08 claims sameness, not success)",
                   "reference = first call on a fresh object in a fresh interpreter; computed twice (hash seeds, "
                   "initial RNG states and order differ) and required to agree"]

    def __init__(self):
        self.reference: dict = {}
        self.ref_disagreements: list = []

    def budget(self, tier):
        if tier == "quick":
            return {"runs": 320, "chunk": 4, "wall": 200, "run_timeout": 240, "min_wall": 60}
        return {"runs": 1400, "chunk": 4, "wall": 1500, "run_timeout": 900, "min_wall": 300}

    def preload(self):
        import molgri.space.rotobj  # noqa: F401
        import molgri.space.fullgrid  # noqa: F401
        import molgri.space.polytopes  # noqa: F401

    # ------------------------------------------------------------------ generation
    def _gen_sphere_spec(self, rng, tier):
        thorough = tier == "thorough"
        r = rng.random()
        if r < 0.55:
            alg = rng.choice(["ico", "cube3D", "randomS"])
            if thorough:
                N = rng.choice([rng.randint(1, 60), rng.randint(1, 60), rng.choice([12, 13, 26, 27, 42, 43, 98, 99]),
                                rng.randint(60, 200), rng.choice([162, 163])])
            else:
                N = rng.choice([rng.randint(1, 8), rng.randint(4, 30), rng.randint(4, 60), 12, 13, 26, 27, 42, 43])
        elif r < 0.9:
            alg = rng.choice(["cube4D", "cube4D", "randomQ"])
            if thorough:
                # (a 4-D grid above 40 points needs the level-2 hypercube: ~10 s per construction)
                N = rng.choice([rng.randint(1, 17), rng.randint(4, 40), rng.randint(4, 30), rng.choice([8, 9, 40, 41]),
                                rng.randint(4, 60) if rng.random() < 0.3 else rng.randint(4, 17)])
            else:
                N = rng.choice([rng.randint(1, 8), rng.randint(4, 17), 8, 9, rng.randint(4, 17)])
        elif r < 0.95:
            alg, N = "fulldiv", (rng.choice([8, 8, 40]) if thorough else 8)
        else:
            alg, N = rng.choice([("zero3D", 1), ("zero4D", 1)])
        spec = {"type": "sphere", "alg": alg, "N": N}
        return spec

    batch_seed = 0

    def _full_menu(self, tier):
        """Full-grid specifications are the expensive references; histories of one batch share a menu derived from
        the batch seed so that the cold reference work stays bounded."""
        key = (self.batch_seed, tier)
        if getattr(self, "_menu_key", None) != key:
            r = random.Random(derive_seed("C08-full-menu", self.batch_seed, tier))
            self._menu = [self._draw_full_spec(r, tier) for _ in range(8 if tier == "quick" else 48)]
            self._menu_key = key
        return self._menu

    def _gen_full_spec(self, rng, tier):
        return dict(rng.choice(self._full_menu(tier)))

    def _draw_full_spec(self, rng, tier):
        thorough = tier == "thorough"
        b_alg = rng.choice(["cube4D", "randomQ", ""])
        nb = rng.choice([1, 1, 4, 5, 8, 9, rng.randint(4, 12)]) if not thorough else \
            rng.choice([1, 4, 8, 9, rng.randint(4, 20), rng.randint(4, 30)])
        o_alg = rng.choice(["ico", "cube3D", "randomS", ""])
        no = rng.choice([1, 4, 6, 8, 12, rng.randint(4, 14)]) if not thorough else \
            rng.choice([1, 4, 8, 12, 13, rng.randint(4, 30)])
        b = f"{b_alg}_{nb}" if b_alg and nb > 1 else str(nb)
        o = f"{o_alg}_{no}" if o_alg and no > 1 else str(no)
        t = rng.choice(["[0.1, 0.2]", "[0.1, 0.2, 0.4]", "linspace(0.1, 0.5, 3)", "[0.3, 0.1]", "range(1, 4)",
                        "[0.15, 0.2, 0.5, 0.55]", "(0.2, 0.4)", "[0.1, 0.3, 0.5]", "arange(0.2, 0.75, 0.2)",
                        "[0.2, 0.4, 0.6]"])
        cartesian = rng.random() < 0.4 and (no >= 4 or rng.random() < 0.1)
        return {"type": "full", "b": b, "o": o, "t": t, "factor": rng.choice([2, 2, 1, 0.5, 3.3]),
                "cartesian": cartesian}

    @staticmethod
    def _getters_for(spec):
        if spec["type"] == "full":
            return FULL_GETTERS
        return SPHERE_GETTERS_4D if DIM[spec["alg"]] == 4 else SPHERE_GETTERS_3D

    def generate(self, rng: random.Random, tier: str) -> dict:
        n_ops = rng.randint(12, 40 if tier == "quick" else 60)
        fault_rate = rng.choice([0.0, 0.15, 0.3, 0.5])
        enabled = [k for k in ("rng_reseed", "rng_draw", "rng_foreign_state", "rng_library_seed", "clock_jump")
                   if rng.random() < 0.7]
        allow_restart = rng.random() < (0.12 if tier == "quick" else 0.2)
        # a small pool of specs per history so that objects of the same spec meet each other
        pool = [self._gen_sphere_spec(rng, tier) for _ in range(rng.randint(2, 4))]
        if rng.random() < 0.6:
            fs = self._gen_full_spec(rng, tier)
            pool.append(fs)
            if rng.random() < 0.5:
                # the same three grid names with another metric factor / position mode, alive in the same history
                twin = dict(fs)
                respell = {"linspace(0.1, 0.5, 3)": "[0.1, 0.3, 0.5]", "[0.1, 0.3, 0.5]": "linspace(0.1, 0.5, 3)",
                           "arange(0.2, 0.75, 0.2)": "[0.2, 0.4, 0.6]", "[0.2, 0.4, 0.6]": "arange(0.2, 0.75, 0.2)",
                           "[0.1, 0.2]": "linspace(0.1, 0.2, 2)", "range(1, 4)": "[1, 2, 3.0000000000000004]"}
                if twin["t"] in respell and rng.random() < 0.5:
                    # the same radii up to the last bits, spelled another way (linspace/arange rounding)
                    twin["t"] = respell[twin["t"]]
                elif rng.random() < 0.5 or twin["o"] in ("1", "2", "3"):
                    twin["factor"] = {2: 3.3, 1: 2, 0.5: 1, 3.3: 0.5}[twin["factor"]]
                else:
                    twin["cartesian"] = not twin["cartesian"]
                pool.append(twin)
        slots = {}  # slot -> spec (generation-time model of the live objects)
        ops = []
        restarted = False
        for _ in range(n_ops):
            if enabled and rng.random() < fault_rate:
                kind = rng.choice(enabled)
                if kind == "clock_jump":
                    ops.append({"op": "fault", "fault": {"kind": "clock_jump",
                                                         "delta": rng.choice([-86400.0, -1.0, 3600.0, 1e7])}})
                else:
                    f = RngSeam.generate(rng)
                    while f["kind"] != kind:
                        f = RngSeam.generate(rng)
                    ops.append({"op": "fault", "fault": f})
                continue
            if allow_restart and not restarted and len(ops) > 4 and rng.random() < 0.08:
                ops.append({"op": "fault", "fault": {"kind": "hashseed_restart", "hashseed": rng.randint(1, 2 ** 31),
                                                     "rng_init": [{"kind": "rng_reseed", "seed": rng.randrange(2 ** 32)}]
                                                     + [RngSeam.generate(rng) for _ in range(rng.randint(0, 2))]}})
                slots = {}
                restarted = True
                continue
            if slots and rng.random() < 0.06:
                # other public entry points of the package used in the same process (plotting helpers, index helpers)
                ops.append({"op": "aux", "slot": rng.choice(sorted(slots)),
                            "what": rng.choice(["position_voronoi", "related_half", "upper_indices", "names",
                                                "raw_voronoi", "o_b_t"])})
                continue
            r = rng.random()
            if not slots or (r < 0.22 and len(slots) < 4):
                spec = dict(rng.choice(pool))
                if spec["type"] == "sphere" and rng.random() < 0.1:
                    spec["timed"] = True
                slot = min(set(range(4)) - set(slots))
                slots[slot] = spec
                ops.append({"op": "create", "slot": slot, "spec": spec})
            elif r < 0.30:
                alg = rng.choice(POLY_ALGS)
                top = (60 if DIM[alg] == 3 else 17) if tier == "quick" else (200 if DIM[alg] == 3 else 45)
                N = rng.randint(1, top - 1)
                M = rng.choice([0, 1, 2, rng.randint(1, top - N)])
                ops.append({"op": "prefix", "alg": alg, "N": N, "M": M, "order": rng.choice(["small_first", "large_first"])})
            elif r < 0.36 and len(slots) > 1:
                slot = rng.choice(sorted(slots))
                del slots[slot]
                ops.append({"op": "drop", "slot": slot})
            else:
                slot = rng.choice(sorted(slots))
                getter = rng.choice(self._getters_for(slots[slot]))
                ops.append({"op": "get", "slot": slot, "getter": getter})
        if tier == "thorough" and rng.random() < 0.012:
            # the one admissible fulldiv size that takes a minute to build, followed by the smaller ones
            ops = ops[: rng.randint(0, 6)]
            ops = [o for o in ops if o["op"] == "fault"]
            for slot, n in ((0, rng.choice([40, 272])), (1, 272), (2, 40), (3, 8)):
                ops.append({"op": "create", "slot": slot, "spec": {"type": "sphere", "alg": "fulldiv", "N": n}})
                ops.append({"op": "get", "slot": slot, "getter": "array"})
            ops.append({"op": "get", "slot": 0, "getter": rng.choice(["array", "array_full"])})
        return {"kind": "history", "rng_init": rng.randrange(2 ** 32), "ops": ops}

    # ------------------------------------------------------------------ references
    @staticmethod
    def needed_pairs(scenario: dict) -> list:
        if scenario.get("kind") == "refshard":
            return []
        pairs = {}
        slots = {}
        for op in scenario.get("ops", []):
            if op["op"] == "create":
                slots[op["slot"]] = op["spec"]
            elif op["op"] == "drop":
                slots.pop(op["slot"], None)
            elif op["op"] == "get" and op["slot"] in slots:
                spec = {k: v for k, v in slots[op["slot"]].items() if k != "timed"}
                pairs[spec_key(spec) + "|" + op["getter"]] = (spec, op["getter"])
            elif op["op"] == "prefix":
                for n in (op["N"], op["N"] + op["M"]):
                    spec = {"type": "sphere", "alg": op["alg"], "N": n}
                    pairs[spec_key(spec) + "|array"] = (spec, "array")
            elif op["op"] == "fault" and op["fault"]["kind"] == "hashseed_restart":
                slots = {}
        if scenario.get("kind") == "refshard":
            return []
        return list(pairs.values())

    def prepare(self, scenarios: list, workers: int = N_WORKERS):
        """Compute the cold references for everything the scenarios will observe (parent process, before forking)."""
        need = {}
        for sc in scenarios:
            for spec, getter in self.needed_pairs(sc):
                k = spec_key(spec) + "|" + getter
                if k not in self.reference:
                    need[k] = (spec, getter)
        if not need:
            return
        items = [need[k] for k in sorted(need)]
        # cost-balanced shards: 4D and full grids are the expensive ones
        def cost(it):
            spec, g = it
            if spec["type"] == "full":
                return 6
            if DIM[spec["alg"]] == 4:
                return 1 + spec["N"] ** 1.5 / 8 + (40 if spec["N"] > 40 else 0)
            return 1 + spec["N"] / 40
        items.sort(key=cost, reverse=True)
        n_shards = max(1, min(workers, len(items)))
        shards = [[] for _ in range(n_shards)]
        loads = [0.0] * n_shards
        for it in items:
            i = loads.index(min(loads))
            shards[i].append(it)
            loads[i] += cost(it)
        jobs = []
        for si, shard in enumerate(shards):
            # the simulator owns the initial state of the global generator in every cold interpreter (a really fresh
            # one is seeded from OS entropy, which would make a failing run unrepeatable)
            jobs.append(("A", si, {"mode": "reference", "pairs": shard,
                                   "rng_init": [{"kind": "rng_reseed", "seed": 20240917 + si}]}, 101 + si))
            jobs.append(("B", si, {"mode": "reference", "pairs": list(reversed(shard)),
                                   "rng_init": [{"kind": "rng_foreign_state", "seed": 977 + si, "advance": 11}]},
                         90001 + 7 * si))
        from concurrent.futures import ThreadPoolExecutor
        res = {"A": {}, "B": {}}
        with ThreadPoolExecutor(max_workers=workers) as ex:
            futs = [(tag, ex.submit(run_child, job, hs)) for tag, si, job, hs in jobs]
            for tag, fut in futs:
                res[tag].update(fut.result())
        shard_of = {}
        for si, shard in enumerate(shards):
            for spec, getter in shard:
                shard_of[spec_key(spec) + "|" + getter] = si
        for k in need:
            a, b = res["A"].get(k), res["B"].get(k)
            if a is None or b is None:
                raise HarnessError(f"reference missing for {k}")
            if a != b:
                # keep the whole shard: what differs between the two interpreters may be what ran BEFORE this pair
                self.ref_disagreements.append((k, a, b, [[sp, g] for sp, g in shards[shard_of[k]]]))
            self.reference[k] = a

    def prepare_seeds(self, tier: str, seeds: list, workers: int = N_WORKERS):
        scenarios = [self.generate(random.Random(s), tier) for s in seeds]
        self.prepare(scenarios, workers)

    # ------------------------------------------------------------------ execution
    def execute(self, scenario: dict) -> dict:
        # when called outside a prepared batch (replay, minimisation, directed) make sure references exist
        missing = [p for p in self.needed_pairs(scenario) if spec_key(p[0]) + "|" + p[1] not in self.reference]
        if missing:
            self.prepare([scenario])
        if scenario.get("kind") == "refshard":
            return self._exec_refshard(scenario)
        for kk, a, b, shard in self.ref_disagreements:
            for spec, getter in self.needed_pairs(scenario):
                if spec_key(spec) + "|" + getter == kk:
                    v = Violation("reproducibility", f"{kk}: two fresh interpreters (different PYTHONHASHSEED / initial "
                                                   f"RNG state / order of the first calls before it) disagree: {a} vs {b}")
                    v.scenario = {"kind": "refshard", "ops": shard}
                    raise v
        return self._exec_history(scenario["ops"], rng_init=scenario.get("rng_init", 0xC0FFEE))

    def _exec_refshard(self, sc: dict) -> dict:
        """A list of (specification, getter) pairs, each evaluated as the first call on a fresh object, once in the
        given order and once in reverse, in two fresh interpreters with different hash seeds and initial generator
        states.  Any disagreement is history- or process-dependence of the library."""
        pairs = [(sp, g) for sp, g in sc["ops"]]
        if not pairs:
            return {"events": 0, "fingerprint": "empty", "faults": {}, "probes": {}, "sig": None, "nontrivial": False}
        a = run_child({"mode": "reference", "pairs": pairs, "rng_init": [{"kind": "rng_reseed", "seed": 20240917}]}, 101)
        b = run_child({"mode": "reference", "pairs": list(reversed(pairs)),
                       "rng_init": [{"kind": "rng_foreign_state", "seed": 977, "advance": 11}]}, 90001)
        for sp, g in pairs:
            k = spec_key(sp) + "|" + g
            if a.get(k) != b.get(k):
                raise Violation("reproducibility", f"{k}: first call on a fresh object gives {a.get(k)} in one fresh "
                                                   f"interpreter and {b.get(k)} in another (other hash seed, other "
                                                   f"generator state, {len(pairs) - 1} other first calls in reverse order)")
        return {"events": 2 * len(pairs), "fingerprint": digest_any(sorted(a.items())), "faults": {}, "probes": {},
                "sig": None, "nontrivial": False}

    def _exec_history(self, ops: list, in_child: bool = False, rng_init: int = 0xC0FFEE) -> dict:
        log = EventLog()
        faults, probes = {}, {}
        sig = []
        compared = 0
        max_live = 0
        held = []
        with World(rng_init=rng_init) as world:
            if in_child:
                pass  # the restart fault's own rng_init list has been applied by child_history
            live = {}
            for step, op in enumerate(ops):
                kind = op["op"]
                if kind == "fault":
                    f = op["fault"]
                    faults[f["kind"]] = faults.get(f["kind"], 0) + 1
                    sig.append(("fault", f["kind"]))
                    if f["kind"] == "clock_jump":
                        world.clock.jump(f["delta"])
                        log.add("sim", "clock_jump", f["delta"])
                    elif f["kind"] == "hashseed_restart":
                        if in_child:
                            raise HarnessError("nested restart")
                        rest = ops[step + 1:]
                        job = {"mode": "history", "ops": rest, "rng_init": f.get("rng_init", []),
                               "reference": {spec_key(s) + "|" + g: self.reference[spec_key(s) + "|" + g]
                                             for s, g in self.needed_pairs({"ops": rest})}}
                        res = run_child(job, f["hashseed"])
                        log.add("sim", "restart", f["hashseed"], res.get("fingerprint"))
                        if res.get("violation"):
                            v = res["violation"]
                            raise Violation(v["oracle"], f"after restart under PYTHONHASHSEED={f['hashseed']}: "
                                                         f"{v['message']}")
                        for k, v in res.get("faults", {}).items():
                            faults[k] = faults.get(k, 0) + v
                        for k, v in res.get("probes", {}).items():
                            probes[k] = probes.get(k, 0) + v
                        compared += res.get("compared", 0)
                        sig += [tuple(x) if isinstance(x, list) else x for x in res.get("sig", [])]
                        probes["continued_in_cold_interpreter"] = probes.get("continued_in_cold_interpreter", 0) + 1
                        break
                    else:
                        RngSeam.apply(f)
                        log.add("sim", f["kind"], {k: v for k, v in f.items() if k != "kind"})
                    continue
                if kind == "create":
                    spec = op["spec"]
                    try:
                        with quiet():
                            obj = make_object(spec)
                    except Exception as e:  # noqa: BLE001 - a failing construction is an observation (see observe)
                        obj = f"EXC-CREATE:{type(e).__name__}"
                    live[op["slot"]] = (spec, obj, [])
                    max_live = max(max_live, len(live))
                    if sum(1 for s, _, _ in live.values() if spec_key(s) == spec_key(spec)) > 1:
                        probes["two_live_objects_same_spec"] = probes.get("two_live_objects_same_spec", 0) + 1
                    log.add("user", "create", spec_key(spec))
                    sig.append(("create", spec_key(spec)))
                elif kind == "aux":
                    if op["slot"] not in live or isinstance(live[op["slot"]][1], str):
                        continue
                    spec, obj, hist = live[op["slot"]]
                    # not judged (the statement is about grids and their geometry getters): these calls only have
                    # to leave the later observations untouched
                    try:
                        with quiet():
                            self._aux_call(obj, spec, op["what"])
                    except Exception:  # noqa: BLE001
                        probes["aux_call_raised"] = probes.get("aux_call_raised", 0) + 1
                    faults["aux_public_call_" + op["what"]] = faults.get("aux_public_call_" + op["what"], 0) + 1
                    log.add("user", "aux", [spec_key(spec), op["what"]])
                    sig.append(("aux", op["what"]))
                elif kind == "drop":
                    live.pop(op["slot"], None)
                    import gc
                    gc.collect()
                    log.add("user", "drop", op["slot"])
                    sig.append(("drop",))
                elif kind == "get":
                    if op["slot"] not in live:
                        continue  # shrinking may remove the create
                    spec, obj, hist = live[op["slot"]]
                    getter = op["getter"]
                    got = obj if isinstance(obj, str) else observe(obj, spec, getter, held if step % 2 == 0 else None)
                    ref = self.reference[spec_key(spec) + "|" + getter]
                    compared += 1
                    if getter in hist:
                        probes["getter_repeated_on_same_object"] = probes.get("getter_repeated_on_same_object", 0) + 1
                    if hist and hist[-1] != getter:
                        probes["getter_after_other_getter"] = probes.get("getter_after_other_getter", 0) + 1
                    log.add("user", "get", [spec_key(spec), getter], got)
                    sig.append(("get", spec_key(spec), getter, tuple(hist[-2:])))
                    if got != ref:
                        raise Violation("reproducibility",
                                        f"step {step}: {getter} of {spec_key(spec)} after history "
                                        f"{hist} gave {got}, cold first-call reference is {ref}")
                    hist.append(getter)
                elif kind == "prefix":
                    alg, N, M = op["alg"], op["N"], op["M"]
                    s_small = {"type": "sphere", "alg": alg, "N": N}
                    s_large = {"type": "sphere", "alg": alg, "N": N + M}
                    order = [s_small, s_large] if op["order"] == "small_first" else [s_large, s_small]
                    arrs = {}
                    for s in order:
                        with lib_call(f"step {step} create {spec_key(s)}"):
                            g = make_object(s)
                            arrs[s["N"]] = np.array(g.get_grid_as_array(), copy=True)
                        got = digest_any(arrs[s["N"]])
                        ref = self.reference[spec_key(s) + "|array"]
                        compared += 1
                        if got != ref:
                            raise Violation("reproducibility", f"step {step}: grid array of {spec_key(s)} gave "
                                                                  f"{got}, cold reference is {ref}")
                    a, b = arrs[N], arrs[N + M]
                    if a.shape[0] != N or b.shape[0] != N + M:
                        raise Violation("prefix", f"step {step}: {alg} N={N}: shapes {a.shape}, {b.shape}")
                    if a.tobytes() != np.ascontiguousarray(b[:N]).tobytes():
                        bad = int(np.argwhere(~np.all(a == b[:N], axis=1))[0][0])
                        raise Violation("prefix", f"step {step}: {alg}_{N} is not the first {N} rows of {alg}_{N + M} "
                                                  f"(first differing row {bad})")
                    probes["prefix_checked"] = probes.get("prefix_checked", 0) + 1
                    log.add("user", "prefix", [alg, N, M, op["order"]], digest_any(a))
                    sig.append(("prefix", alg, N, M, op["order"]))
                else:
                    raise HarnessError(f"unknown op {kind}")
        # a getter is pure: calling another getter afterwards must not change what an earlier one handed out
        for skey, getter, val, dg in held:
            if digest_any(val) != dg:
                raise Violation("reproducibility", f"the value {getter} of {skey} returned earlier in this history was "
                                                   f"changed by later getter calls (the library overwrote an object it "
                                                   f"had handed out)")
        if held:
            probes["returned_values_rechecked_at_end"] = len(held)
        nontrivial = compared >= 1 and (sum(faults.values()) >= 1 or max_live >= 2)
        return {"events": log.n, "fingerprint": log.digest(), "faults": faults, "probes": probes,
                "sig": repr(sig), "nontrivial": nontrivial, "compared": compared,
                "inter": repr([s[:2] for s in sig])}

    @staticmethod
    def _aux_call(obj, spec, what):
        from molgri.space.voronoi import PositionVoronoi
        from molgri.space.fullgrid import from_full_array_to_o_b_t
        if spec["type"] == "sphere":
            sv = obj.get_spherical_voronoi()
            if what == "position_voronoi" and DIM[spec["alg"]] == 3 and spec["N"] >= 4:
                pv = PositionVoronoi(np.array(obj.get_grid_as_array(), copy=True), np.array([1.0, 2.0, 3.5]))
                pv.get_voronoi_volumes()
            elif what == "related_half" and hasattr(sv, "get_related_half_voronoi"):
                sv.get_related_half_voronoi()
            elif what == "upper_indices":
                obj.get_upper_indices()
            elif what == "names":
                obj.get_name()
                obj.get_decorator_name()
                str(obj)
            elif what == "raw_voronoi" and hasattr(sv, "get_all_voronoi_vertices"):
                sv.get_all_voronoi_vertices(reduced=True)
                sv.get_all_voronoi_regions(reduced=False)
                sv.get_all_voronoi_centers()
        else:
            if what == "position_voronoi":
                o = np.array(obj.get_position_grid().get_o_grid().get_grid_as_array(only_upper=False), copy=True)
                if len(o) >= 4:
                    PositionVoronoi(o, np.array(obj.get_position_grid().get_radii(), dtype=float)).get_voronoi_volumes()
            elif what == "names":
                obj.get_name()
                len(obj)
                obj.get_b_N(), obj.get_o_N(), obj.get_t_N()
            elif what == "upper_indices":
                obj.get_position_index()
                obj.get_quaternion_index()
                obj.get_adjacency_of_orientation_grid()
            elif what == "o_b_t":
                from_full_array_to_o_b_t(np.array(obj.get_full_grid_as_array(), copy=True))

    def shrink_candidates(self, sc):
        import copy
        if sc.get("kind") != "history":
            return
        for i, op in enumerate(sc["ops"]):
            if op["op"] == "create" and op["spec"].get("timed"):
                c = copy.deepcopy(sc)
                del c["ops"][i]["spec"]["timed"]
                yield c
            if op["op"] == "fault" and op["fault"]["kind"] == "hashseed_restart":
                c = copy.deepcopy(sc)
                del c["ops"][i]
                yield c


def child_history(job: dict) -> dict:
    """Executed inside the cold child: continue a history after a restart fault."""
    chk = SessionCheck()
    chk.reference = job["reference"]
    first = job.get("rng_init", [{"kind": "rng_reseed", "seed": 1}])[0]
    try:
        ops = [{"op": "fault", "fault": f} for f in job.get("rng_init", [])[1:]] + job["ops"]
        out = chk._exec_history(ops, in_child=True, rng_init=first.get("seed", 1))
        out["sig"] = []
        return out
    except Violation as v:
        return {"violation": {"oracle": v.oracle, "message": v.message}}


# ---------------------------------------------------------------------------------------------------------------------
#   C18: polytope machine
# ---------------------------------------------------------------------------------------------------------------------

def ideal_lattice(kind: str, k: int) -> np.ndarray:
    """Independent construction of the ideal node set after k subdivisions."""
    m = 2 ** k
    if kind in ("cube3D", "cube4D"):
        d = 3 if kind == "cube3D" else 4
        a = 1 / np.sqrt(3) if d == 3 else 0.5
        axis = np.linspace(-a, a, m + 1)
        grids = np.meshgrid(*([np.arange(m + 1)] * d), indexing="ij")
        idx = np.stack([g.ravel() for g in grids], axis=1)
        on_boundary = np.any((idx == 0) | (idx == m), axis=1)
        return axis[idx[on_boundary]]
    if kind == "ico":
        from scipy.constants import golden
        side = 1 / np.sin(2 * np.pi / 5)
        verts = np.array([(-1, golden, 0), (1, golden, 0), (-1, -golden, 0), (1, -golden, 0),
                          (0, -1, golden), (0, 1, golden), (0, -1, -golden), (0, 1, -golden),
                          (golden, 0, -1), (golden, 0, 1), (-golden, 0, -1), (-golden, 0, 1)], dtype=float) * side / 2
        from itertools import combinations
        edge = 2 * side / 2  # distance between adjacent vertices of (+-1, +-golden, 0)*side/2 is side
        faces = [c for c in combinations(range(12), 3)
                 if all(abs(np.linalg.norm(verts[i] - verts[j]) - side) < 1e-9 for i, j in combinations(c, 2))]
        assert len(faces) == 20, len(faces)
        pts = []
        for (A, B, C) in faces:
            for i in range(m + 1):
                for j in range(m + 1 - i):
                    l = m - i - j
                    pts.append((i * verts[A] + j * verts[B] + l * verts[C]) / m)
        pts = np.array(pts)
        _, keep = np.unique(np.round(pts, 9), axis=0, return_index=True)
        return pts[np.sort(keep)]
    raise HarnessError(kind)


EXPECTED_COUNT = {"cube3D": lambda k: 6 * 4 ** k + 2, "ico": lambda k: 10 * 4 ** k + 2,
                  "cube4D": lambda k: (2 ** k + 1) ** 4 - (2 ** k - 1) ** 4}


class PolytopeCheck(Check):
    prop = "C18"
    engine = "session"
    rule = ("one run = one seeded subdivision history of 1-2 live polytopes of one type (ico, cube3D to level 3/4, "
            "cube4D to level 1/2): divide_edges, get_nodes(N?, projection?), get_half_of_hypercube(N?, projection?), "
            "get_nodes(N > available), interleaved between the instances (also of different solids, also created mid-history), "
            "deepcopy/pickle clones continuing the history, auxiliary public calls (cells, adjacency, cdist, neighbours, "
            "N-element graph), a varying amount of observation after each subdivision, global-RNG faults in between. "
            "After every operation: node set == independently built ideal lattice (KD-tree, 1e-9), projection, "
            "negation closure, append-only index log, level order, prefix and half-selection invariants. "
            "Non-trivial: >=1 divide and (>=1 fault fired or 2 instances interleaved). Distinct = distinct hash of "
            "(type, op sequence with instance ids and fault kinds).")
    components = {"real": ["molgri.space.polytopes (Polytope, IcosahedronPolytope, Cube3DPolytope, Cube4DPolytope)",
                           "networkx, numpy global RNG"],
                  "stub": []}
    assumptions = ["ideal lattices built independently (numpy meshgrid / barycentric lattice over faces found by "
                   "distance), matched at 1e-9, far below the lattice spacing",
                   "indices are observed through the public getters (row position in get_nodes()), plus the "
                   "central_index node attribute when present"]

    def budget(self, tier):
        if tier == "quick":
            return {"runs": 320, "chunk": 2, "wall": 200, "run_timeout": 300, "min_wall": 60}
        return {"runs": 5000, "chunk": 2, "wall": 1700, "run_timeout": 1500, "min_wall": 300}

    def preload(self):
        import molgri.space.polytopes  # noqa: F401

    def generate(self, rng, tier):
        kind = rng.choice(["ico", "cube3D", "cube4D", "ico", "cube3D"])
        n_inst = rng.choice([1, 2, 2, 3])
        # usually one type; sometimes different solids live in the same process (class-level state would show)
        types = [kind] * n_inst if rng.random() < 0.6 else [rng.choice(["ico", "cube3D", "cube4D"]) for _ in range(n_inst)]
        max_levels = []
        for kd in types:
            if tier == "quick":
                # level 4 costs ~1 s per divide: reached in a fraction of the quick runs, routinely in thorough
                deep = rng.random() < 0.25
                max_levels.append({"ico": 4 if deep else 3, "cube3D": 4 if deep else 3, "cube4D": 1}[kd])
            else:
                max_levels.append({"ico": rng.choice([3, 4]), "cube3D": rng.choice([3, 4]),
                                   "cube4D": rng.choice([1, 1, 2])}[kd])
        fault_rate = rng.choice([0.0, 0.2, 0.4])
        levels = [0] * n_inst
        born = [False] * n_inst
        ops = []
        for _ in range(rng.randint(3, 14 if tier == "quick" else 22)):
            if rng.random() < fault_rate:
                ops.append({"op": "fault", "fault": RngSeam.generate(rng)})
                continue
            i = rng.randrange(n_inst)
            kind, max_level = types[i], max_levels[i]
            if not born[i]:
                # objects are created in the middle of the history, not all at its start
                born[i] = True
                ops.append({"op": "create", "inst": i, "observe": rng.choice(["all", "all", "none"])})
                continue
            if rng.random() < 0.05:
                # the object is copied (deepcopy / pickle round trip) and the history continues on the copy
                ops.append({"op": "clone", "inst": i, "how": rng.choice(["deepcopy", "pickle"])})
                continue
            if rng.random() < 0.18:
                # other public methods of the object, called between the operations the property talks about
                ops.append({"op": "aux", "inst": i,
                            "what": rng.choice(["cells", "cells", "adjacency", "cdist", "neighbours",
                                                "n_element_graph"])})
                continue
            r = rng.random()
            if r < 0.35 and levels[i] < max_level:
                levels[i] += 1
                # what the caller looks at after the subdivision is part of the history: getters may fill caches
                ops.append({"op": "divide", "inst": i, "observe": rng.choice(["all", "all", "nodes", "none", "none"])})
                if ops[-1]["observe"] == "none" and rng.random() < 0.5:
                    # ... and the first thing asked of the new level may be a handful of leading nodes
                    if kind == "cube4D" and rng.random() < 0.5:
                        ops.append({"op": "half", "inst": i, "frac": "abs", "n_abs": rng.choice([1, 2, 3, 7]),
                                    "projection": rng.random() < 0.5})
                    else:
                        ops.append({"op": "nodes", "inst": i, "frac": "abs", "n_abs": rng.choice([1, 2, 3, 5, 7, 12]),
                                    "projection": rng.random() < 0.5})
            elif r < 0.6:
                ops.append({"op": "nodes", "inst": i, "frac": rng.choice([None, None, 0.0, 0.3, 0.7, 1.0, "abs", "abs"]),
                            "n_abs": rng.choice([1, 2, 3, 5, 12, rng.randint(1, 60)]),
                            "projection": rng.random() < 0.5})
            elif r < 0.7:
                ops.append({"op": "too_many", "inst": i, "extra": rng.choice([1, 2, 100])})
            elif kind == "cube4D":
                ops.append({"op": "half", "inst": i, "frac": rng.choice([None, None, 0.25, 0.5, 1.0, "abs", "abs"]),
                            "n_abs": rng.randint(1, 272), "projection": rng.random() < 0.5})
            else:
                ops.append({"op": "nodes", "inst": i, "frac": None, "projection": False})
        # make sure the deepest level is reached in some runs
        born_idx = [i for i in range(n_inst) if born[i]]
        if born_idx and rng.random() < 0.5:
            i = rng.choice(born_idx)
            kind, max_level = types[i], max_levels[i]
            first = next(k for k, o in enumerate(ops) if o.get("op") == "create" and o.get("inst") == i)
            while levels[i] < max_level:
                levels[i] += 1
                ops.insert(rng.randrange(first + 1, len(ops) + 1), {"op": "divide", "inst": i,
                                                                  "observe": rng.choice(["all", "nodes", "none"])})
        return {"kind": "polytope", "type": types[0], "types": types, "n_inst": n_inst, "ops": ops}

    _ideal_cache: dict = {}

    def _ideal(self, kind, k):
        key = (kind, k)
        if key not in self._ideal_cache:
            from scipy.spatial import cKDTree
            pts = ideal_lattice(kind, k)
            self._ideal_cache[key] = (pts, cKDTree(pts))
        return self._ideal_cache[key]

    def _check_instance(self, kind, poly, level, index_log, what, with_projection=True):
        from scipy.spatial import cKDTree
        with lib_call(what + ": get_nodes()"):
            nodes = np.array(poly.get_nodes(), copy=True)
            proj = np.array(poly.get_nodes(projection=True), copy=True) if with_projection else None
        n = len(nodes)
        exp_n = EXPECTED_COUNT[kind](level)
        ideal, tree = self._ideal(kind, level)
        if n != exp_n or len(ideal) != exp_n:
            raise Violation("lattice-count", f"{what}: {n} nodes at level {level}, ideal lattice has {len(ideal)} "
                                             f"(formula {exp_n})")
        dist, idx = tree.query(nodes)
        if dist.max() > 1e-9:
            raise Violation("lattice-point", f"{what}: node {nodes[int(np.argmax(dist))]} is {dist.max():.3g} away from "
                                             f"the ideal level-{level} lattice")
        if len(np.unique(idx)) != n:
            raise Violation("lattice-duplicate", f"{what}: two nodes map to the same lattice point")
        # projection
        nrm = np.linalg.norm(nodes, axis=1)
        if proj is not None and (proj.shape != nodes.shape or np.abs(proj - nodes / nrm[:, None]).max() > 1e-12):
            raise Violation("projection", f"{what}: projection is not node/|node|")
        # negation closure
        d2, _ = cKDTree(nodes).query(-nodes)
        if d2.max() > 1e-9:
            raise Violation("negation-closure", f"{what}: -node missing for {nodes[int(np.argmax(d2))]}")
        # append-only index log: every (index, node) pair ever observed is still the same tuple
        old = index_log["nodes"]
        if len(old) > n:
            raise Violation("index-permanence", f"{what}: node count shrank from {len(old)} to {n}")
        if len(old) and nodes[:len(old)].tobytes() != old.tobytes():
            bad = int(np.argwhere(~np.all(nodes[:len(old)] == old, axis=1))[0][0])
            raise Violation("index-permanence", f"{what}: index {bad} was {old[bad]} and is now {nodes[bad]}")
        index_log["nodes"] = nodes
        # level order: the first n_j rows are exactly the level-j lattice, for every j <= level
        for j in range(level):
            nj = EXPECTED_COUNT[kind](j)
            idl, tr = self._ideal(kind, j)
            dj, ij = tr.query(nodes[:nj])
            if dj.max() > 1e-9 or len(np.unique(ij)) != nj:
                raise Violation("level-order", f"{what}: the first {nj} indices are not exactly the level-{j} lattice")
        # internal attribute, when the implementation keeps one
        try:
            ci = [poly.G.nodes[tuple(r)]["central_index"] for r in nodes]
            if ci != list(range(n)):
                raise Violation("index-range", f"{what}: row i of get_nodes() does not carry index i")
        except (AttributeError, KeyError):
            pass
        return nodes, proj

    def execute(self, sc):
        from molgri.space import polytopes as P
        classes = {"ico": P.IcosahedronPolytope, "cube3D": P.Cube3DPolytope, "cube4D": P.Cube4DPolytope}
        types = sc.get("types") or [sc["type"]] * sc["n_inst"]
        log = EventLog()
        faults, probes = {}, {}
        sig = [tuple(types)]
        divides = 0
        touched = set()
        explicit_create = any(o.get("op") == "create" for o in sc["ops"])
        with World(clock=False):
            insts, levels, logs = [None] * len(types), [0] * len(types), [None] * len(types)

            def create(i, observe="all"):
                kd = types[i]
                with lib_call(f"create {kd} polytope #{i}"):
                    insts[i] = classes[kd]()
                levels[i] = 0
                logs[i] = {"nodes": np.zeros((0, 3 if kd != "cube4D" else 4))}
                if observe != "none":
                    self._check_instance(kd, insts[i], 0, logs[i], f"{kd}#{i} level 0")

            if not explicit_create:
                for i in range(len(types)):
                    create(i)
            if len(set(types)) > 1:
                probes["different_solids_in_one_process"] = 1
            for step, op in enumerate(sc["ops"]):
                if op["op"] == "fault":
                    RngSeam.apply(op["fault"])
                    faults[op["fault"]["kind"]] = faults.get(op["fault"]["kind"], 0) + 1
                    log.add("sim", op["fault"]["kind"])
                    sig.append(("fault", op["fault"]["kind"]))
                    continue
                i = op["inst"]
                if i >= len(insts):
                    continue
                kind = types[i]
                if op["op"] == "create":
                    if insts[i] is None:
                        create(i, op.get("observe", "all"))
                        if any(x is not None for k_, x in enumerate(insts) if k_ != i):
                            probes["created_mid_history"] = probes.get("created_mid_history", 0) + 1
                        log.add(f"poly{i}", "create", kind)
                        sig.append(("create", i, kind))
                    continue
                if insts[i] is None:
                    continue  # shrinking may have removed the creation
                poly = insts[i]
                touched.add(i)
                what = f"step {step} {kind}#{i}"
                if op["op"] == "clone":
                    import copy
                    import pickle
                    with lib_call(what + f" {op['how']}"):
                        insts[i] = copy.deepcopy(poly) if op["how"] == "deepcopy" else pickle.loads(pickle.dumps(poly))
                    faults["clone_" + op["how"]] = faults.get("clone_" + op["how"], 0) + 1
                    log.add(f"poly{i}", "clone", op["how"])
                    sig.append(("clone", i, op["how"]))
                    continue
                if op["op"] == "aux":
                    # calls the property does not talk about; they must not disturb what it does talk about
                    # (what they return or raise is not judged: the statement is silent about them)
                    try:
                        with quiet():
                            if op["what"] == "cells" and kind == "cube4D":
                                for cell in poly.get_all_cells():
                                    for kw in ({}, {"projection": True}):
                                        try:
                                            cell.get_nodes(**kw)
                                        except Exception:  # noqa: BLE001
                                            probes["aux_call_raised"] = probes.get("aux_call_raised", 0) + 1
                            elif op["what"] == "adjacency":
                                poly.get_polytope_adj_matrix()
                            elif op["what"] == "cdist" and levels[i] <= 2:
                                poly.get_cdist_matrix()
                            elif op["what"] == "neighbours":
                                poly.get_neighbours_of(0)
                            elif op["what"] == "n_element_graph" and levels[i] <= 2:
                                n_now = EXPECTED_COUNT[kind](levels[i])
                                poly.get_N_element_graph(poly.get_nodes(N=max(1, n_now // 2), projection=True))
                    except Exception:  # noqa: BLE001
                        probes["aux_call_raised"] = probes.get("aux_call_raised", 0) + 1
                    faults["aux_public_call_" + op["what"]] = faults.get("aux_public_call_" + op["what"], 0) + 1
                    log.add(f"poly{i}", "aux", op["what"])
                    sig.append(("aux", i, op["what"]))
                    continue
                if op["op"] == "divide":
                    with lib_call(what + " divide_edges"):
                        poly.divide_edges()
                    levels[i] += 1
                    divides += 1
                    probes[f"{kind}_level_{levels[i]}"] = probes.get(f"{kind}_level_{levels[i]}", 0) + 1
                    obs = op.get("observe", "all")
                    if obs == "none":
                        probes["divide_without_observation"] = probes.get("divide_without_observation", 0) + 1
                        log.add(f"poly{i}", "divide", levels[i])
                    else:
                        nodes, _ = self._check_instance(kind, poly, levels[i], logs[i],
                                                        what + f" after divide -> level {levels[i]}",
                                                        with_projection=(obs == "all"))
                        log.add(f"poly{i}", "divide", [levels[i], obs], digest_any(nodes))
                elif op["op"] == "nodes":
                    n = EXPECTED_COUNT[kind](levels[i])
                    if op["frac"] is None:
                        N = None
                    elif op["frac"] == "abs":
                        N = max(1, min(n, op.get("n_abs", 1)))
                    else:
                        N = max(0, min(n, int(round(op["frac"] * n))))
                    # the requested call comes FIRST (it may be the first getter on this level), the full check after it
                    with lib_call(what + f" get_nodes(N={N}, projection={op['projection']})"):
                        part = np.array(poly.get_nodes(N=N, projection=op["projection"]), copy=True)
                    nodes, proj = self._check_instance(kind, poly, levels[i], logs[i], what)
                    full = proj if op["projection"] else nodes
                    exp = full if N is None else full[:N]
                    if N == 0:
                        ok = len(part) == 0
                    else:
                        ok = part.shape == exp.shape and part.tobytes() == np.ascontiguousarray(exp).tobytes()
                    if not ok:
                        raise Violation("nodes-prefix", f"{what}: get_nodes(N={N}) is not the first {N} rows of get_nodes()")
                    log.add(f"poly{i}", "nodes", [N, op["projection"]], digest_any(part))
                elif op["op"] == "too_many":
                    n = EXPECTED_COUNT[kind](levels[i])
                    # asking for more nodes than exist is a call the statement says nothing about: it is only made to
                    # see that it does not disturb the object (the invariants are checked again afterwards)
                    try:
                        with quiet():
                            poly.get_nodes(N=n + op["extra"])
                        probes["oversized_request_accepted"] = probes.get("oversized_request_accepted", 0) + 1
                    except Exception:  # noqa: BLE001
                        probes["oversized_request_rejected"] = probes.get("oversized_request_rejected", 0) + 1
                    self._check_instance(kind, poly, levels[i], logs[i], what + " after an oversized request")
                    log.add(f"poly{i}", "too_many", op["extra"])
                elif op["op"] == "half":
                    n = EXPECTED_COUNT[kind](levels[i])
                    if op["frac"] is None:
                        N = None
                    elif op["frac"] == "abs":
                        N = max(1, min(n // 2, op.get("n_abs", 1)))
                    else:
                        N = max(1, int(round(op["frac"] * (n // 2))))
                    with lib_call(what + f" get_half_of_hypercube(N={N}, projection={op['projection']})"):
                        part = np.array(poly.get_half_of_hypercube(N=N, projection=op["projection"]), copy=True)
                    nodes, proj = self._check_instance(kind, poly, levels[i], logs[i], what)
                    with lib_call(what + " get_half_of_hypercube()"):
                        half_all = np.asarray(poly.get_half_of_hypercube(projection=False))
                    self._check_half(nodes, half_all, what)
                    exp = half_all if N is None else half_all[:N]
                    if op["projection"]:
                        exp = exp / np.linalg.norm(exp, axis=1)[:, None]
                        ok = part.shape == exp.shape and np.abs(part - exp).max() <= 1e-12
                    else:
                        ok = part.shape == exp.shape and part.tobytes() == np.ascontiguousarray(exp).tobytes()
                    if not ok:
                        raise Violation("half-prefix", f"{what}: get_half_of_hypercube(N={N}) is not the first {N} of "
                                                       f"the full half selection")
                    log.add(f"poly{i}", "half", [N, op["projection"]], digest_any(part))
                sig.append((op["op"], i, levels[i], op.get("observe")))
            for i, poly in enumerate(insts):
                if poly is None:
                    continue
                kind = types[i]
                self._check_instance(kind, poly, levels[i], logs[i], f"final state of {kind}#{i} (level {levels[i]})")
                if kind == "cube4D":
                    with lib_call(f"final get_half_of_hypercube of {kind}#{i}"):
                        nodes_f = np.array(poly.get_nodes(), copy=True)
                        half_f = np.asarray(poly.get_half_of_hypercube(projection=False))
                    self._check_half(nodes_f, half_f, f"final state of {kind}#{i}")
        nontrivial = divides >= 1 and (sum(faults.values()) >= 1 or len(touched) >= 2)
        return {"events": log.n, "fingerprint": log.digest(), "faults": faults, "probes": probes,
                "sig": repr(sig), "nontrivial": nontrivial, "inter": repr(sig)}

    @staticmethod
    def _check_half(nodes, half, what):
        n = len(nodes)
        if len(half) * 2 != n:
            raise Violation("half-count", f"{what}: half selection has {len(half)} of {n} nodes")
        # index of every selected node
        lookup = {r.tobytes(): i for i, r in enumerate(np.ascontiguousarray(nodes))}
        try:
            idx = [lookup[np.ascontiguousarray(r).tobytes()] for r in half]
        except KeyError:
            raise Violation("half-foreign", f"{what}: half selection contains a point that is not a node")
        if idx != sorted(idx) or len(set(idx)) != len(idx):
            raise Violation("half-order", f"{what}: half selection is not in ascending index order")
        from scipy.spatial import cKDTree
        tree = cKDTree(half)
        d_self, _ = tree.query(nodes)
        d_anti, _ = tree.query(-nodes)
        in_self = d_self < 1e-9
        in_anti = d_anti < 1e-9
        if not np.all(in_self ^ in_anti):
            bad = int(np.argwhere(~(in_self ^ in_anti))[0][0])
            raise Violation("half-antipodal", f"{what}: node {nodes[bad]} and its antipode are "
                                              f"{'both' if in_self[bad] else 'neither'} selected")

    def shrink_candidates(self, sc):
        import copy
        if sc["n_inst"] >= 2:
            for keep in range(sc["n_inst"]):
                c = copy.deepcopy(sc)
                c["ops"] = [o for o in c["ops"] if o.get("inst", keep) == keep]
                yield c
